"""Un-refactoring of *new* private helpers.

"Extract method" is the commonest behaviour-preserving refactor, and it would move anchored statements out of the
functions the rules look at.  Private helpers (methods `_x` of a class of the module, or module-level `_x(...)`) that do
not exist in the committed baseline and have a simple shape are inlined back into their call sites in the in-memory AST
before any analysis runs.

 statement helpers   called as a whole statement - `self._x(..)`, `v = self._x(..)`, `return self._x(..)`,
                     `raise _x(..)`, with or without `await`, also on another receiver of the same module
                     (`self._pool._x(..)`: `self` in the body becomes that receiver).  The body has no yield, nested
                     definition or *args/**kwargs, and every `return` is in tail position (the last statement, or the last
                     statement of an if/else branch that is itself in tail position; guard clauses count).  Returns become
                     assignments / returns / raises of the calling form.
 expression helpers  the body is a single `return <expr>` (docstring aside) without await / yield: every call, anywhere in
                     an expression, is replaced by the expression with the parameters substituted.
 Decorators `@staticmethod` / `@classmethod` are understood (no `self`).
Parameters are substituted by the argument expressions (simple arguments directly, others through a temporary); helper locals
get a suffix only where they clash with a name the caller uses.  Anything that does not fit is left exactly as written
(the rules then see the new helper as it is)."""
from __future__ import annotations

import ast
import typing as T

FUNC_KINDS = (ast.FunctionDef, ast.AsyncFunctionDef)


def _clone(node: T.Any) -> T.Any:
    if isinstance(node, ast.AST):
        new = node.__class__()
        for f in node._fields:
            if hasattr(node, f):
                setattr(new, f, _clone(getattr(node, f)))
        for a in ("lineno", "col_offset", "end_lineno", "end_col_offset"):
            if hasattr(node, a):
                setattr(new, a, getattr(node, a))
        return new
    if isinstance(node, list):
        return [_clone(x) for x in node]
    return node


def _strip_doc(body: list[ast.stmt]) -> list[ast.stmt]:
    if body and isinstance(body[0], ast.Expr) and isinstance(body[0].value, ast.Constant) and isinstance(body[0].value.value, str):
        return body[1:]
    return body


def _kind(fn: T.Any) -> str | None:
    """'method' (takes self), 'static' (staticmethod / classmethod / module function: no receiver parameter), or None."""
    decos = [ast.unparse(d) for d in fn.decorator_list]
    if not decos:
        return "method"
    if decos == ["staticmethod"]:
        return "static"
    if decos == ["classmethod"]:
        return "class"
    return None


def _tail_returns_only(stmts: list[ast.stmt]) -> bool:
    """Every Return in `stmts` is in tail position."""
    for i, st in enumerate(stmts):
        last = i == len(stmts) - 1
        if isinstance(st, ast.Return):
            if not last:
                return False
        elif isinstance(st, ast.If) and last:
            if not _tail_returns_only(st.body) or not _tail_returns_only(st.orelse):
                return False
        elif any(isinstance(x, ast.Return) for x in ast.walk(st)):
            return False
    return True


def _guard_to_else(stmts: list[ast.stmt]) -> list[ast.stmt]:
    """`if C: ...return` followed by rest  ->  `if C: ...return else: rest` (so that returns are in tail position)."""
    out: list[ast.stmt] = []
    for i, st in enumerate(stmts):
        if isinstance(st, ast.If):
            st = _clone(st)
            st.body = _guard_to_else(st.body)
            st.orelse = _guard_to_else(st.orelse)
            rest = stmts[i + 1:]
            if rest and not st.orelse and st.body and isinstance(st.body[-1], (ast.Return, ast.Raise)):
                st.orelse = _guard_to_else(rest)
                out.append(st)
                return out
        out.append(st)
    return out


def inlinable(fn: T.Any) -> bool:
    if _kind(fn) is None or fn.args.vararg or fn.args.kwarg or fn.args.posonlyargs:
        return False
    body = _strip_doc(fn.body)
    if not body:
        return False
    for n in ast.walk(fn):
        if isinstance(n, (ast.Yield, ast.YieldFrom, ast.Lambda, ast.ClassDef, ast.Global, ast.Nonlocal)) or (isinstance(n, FUNC_KINDS) and n is not fn):
            return False
    return _tail_returns_only(_guard_to_else(body))


def expression_helper(fn: T.Any) -> ast.expr | None:
    if _kind(fn) is None or fn.args.vararg or fn.args.kwarg or fn.args.posonlyargs or isinstance(fn, ast.AsyncFunctionDef):
        return None
    def simplify(test: ast.expr, a: ast.expr, b: ast.expr, at: ast.AST) -> ast.expr:
        """`True if t else b` == `t or b`;  `a if t else False` == `t and a`;  `False if t else b` == `not t and b`;  `a if t else True` == `not t or a`."""
        def const(e: ast.expr) -> T.Any:
            return e.value if isinstance(e, ast.Constant) and isinstance(e.value, bool) else None
        ca, cb = const(a), const(b)
        neg = ast.UnaryOp(op=ast.Not(), operand=test)
        if ca is True:
            r: ast.expr = ast.BoolOp(op=ast.Or(), values=[test, b])
        elif cb is False:
            r = ast.BoolOp(op=ast.And(), values=[test, a])
        elif ca is False:
            r = ast.BoolOp(op=ast.And(), values=[neg, b])
        elif cb is True:
            r = ast.BoolOp(op=ast.Or(), values=[neg, a])
        else:
            r = ast.IfExp(test=test, body=a, orelse=b)
        return ast.copy_location(r, at)

    def plain(e: ast.expr) -> bool:
        """An alias-like right-hand side that may be substituted into the result: attribute chains, names, constants."""
        while isinstance(e, ast.Attribute):
            e = e.value
        return isinstance(e, (ast.Name, ast.Constant))

    def as_expr(stmts: list[ast.stmt]) -> ast.expr | None:
        temps: dict[str, ast.expr] = {}
        stmts = list(stmts)
        while len(stmts) > 1 and isinstance(stmts[0], (ast.Assign, ast.AnnAssign)):
            st = stmts[0]
            tg = st.targets[0] if isinstance(st, ast.Assign) and len(st.targets) == 1 else getattr(st, "target", None)
            if not (isinstance(tg, ast.Name) and getattr(st, "value", None) is not None and plain(st.value)):
                return None
            temps[tg.id] = _Subst(dict(temps), {}).visit(_clone(st.value))
            stmts = stmts[1:]
        e: ast.expr | None = None
        if len(stmts) == 1 and isinstance(stmts[0], ast.Return) and stmts[0].value is not None:
            e = stmts[0].value
        elif len(stmts) == 1 and isinstance(stmts[0], ast.If) and stmts[0].orelse:
            a, b = as_expr(stmts[0].body), as_expr(stmts[0].orelse)
            if a is not None and b is not None:
                e = simplify(stmts[0].test, a, b, stmts[0])
        if e is not None and temps:
            e = _Subst(dict(temps), {}).visit(_clone(e))
        return e

    e = as_expr(_guard_to_else(_strip_doc(fn.body)))
    if e is not None and not any(isinstance(x, (ast.Await, ast.Yield, ast.YieldFrom, ast.Lambda, ast.NamedExpr)) for x in ast.walk(e)):
        return e
    return None


def _call_of(st: ast.stmt) -> tuple[ast.Call, str, T.Any] | None:
    """(call, form, target) if the statement is a helper call in statement position."""
    def unwrap(e: T.Any) -> ast.Call | None:
        if isinstance(e, ast.Await):
            e = e.value
        return e if isinstance(e, ast.Call) else None
    if isinstance(st, ast.Expr):
        c = unwrap(st.value)
        return (c, "expr", None) if c else None
    if isinstance(st, ast.Assign) and len(st.targets) == 1:
        c = unwrap(st.value)
        return (c, "assign", st.targets[0]) if c else None
    if isinstance(st, ast.AnnAssign) and st.value is not None:
        c = unwrap(st.value)
        return (c, "assign", st.target) if c else None
    if isinstance(st, ast.Return) and st.value is not None:
        c = unwrap(st.value)
        return (c, "return", None) if c else None
    if isinstance(st, ast.Raise) and st.exc is not None and st.cause is None:
        c = unwrap(st.exc)
        return (c, "raise", None) if c else None
    return None


def _chain_ok(e: ast.AST) -> bool:
    while isinstance(e, ast.Attribute):
        e = e.value
    return isinstance(e, ast.Name)


def _helper_ref(call: ast.Call, names: T.Container[str]) -> tuple[str, ast.expr | None] | None:
    """(helper name, receiver expression or None) if `call` calls one of `names`."""
    f = call.func
    if isinstance(f, ast.Name) and f.id in names:
        return f.id, None
    if isinstance(f, ast.Attribute) and f.attr in names and _chain_ok(f.value):
        return f.attr, f.value
    return None


def _simple(e: ast.AST) -> bool:
    while isinstance(e, ast.Attribute):
        e = e.value
    return isinstance(e, (ast.Name, ast.Constant))


class _Subst(ast.NodeTransformer):
    def __init__(self, mapping: dict[str, ast.AST], rename: dict[str, str]):
        self.mapping, self.rename = mapping, rename

    def visit_Name(self, n: ast.Name) -> ast.AST:
        if n.id in self.mapping and isinstance(n.ctx, ast.Load):
            return _clone(self.mapping[n.id])
        if n.id in self.rename:
            return ast.copy_location(ast.Name(id=self.rename[n.id], ctx=n.ctx), n)
        return n

    def visit_ExceptHandler(self, n: ast.ExceptHandler) -> ast.AST:
        self.generic_visit(n)
        if n.name in self.rename:
            n.name = self.rename[n.name]
        return n


def _bind(call: ast.Call, helper: T.Any, receiver: ast.expr | None) -> dict[str, ast.AST] | None:
    params = [a.arg for a in helper.args.args]
    defaults = dict(zip(params[len(params) - len(helper.args.defaults):], helper.args.defaults))
    kwonly = [a.arg for a in helper.args.kwonlyargs]
    for a, d in zip(helper.args.kwonlyargs, helper.args.kw_defaults):
        if d is not None:
            defaults[a.arg] = d
    bound: dict[str, ast.AST] = {}
    kind = _kind(helper)
    in_class = getattr(helper, "_in_class", False)
    if in_class and kind in ("method", "class"):
        if not params:
            return None
        first, params = params[0], params[1:]
        if kind == "method":
            if receiver is None:
                return None
            bound[first] = receiver
        else:
            bound[first] = receiver if receiver is not None else ast.Name(id="type(self)", ctx=ast.Load())
    if any(isinstance(a, ast.Starred) for a in call.args) or any(k.arg is None for k in call.keywords):
        return None
    if len(call.args) > len(params):
        return None
    for p, a in zip(params, call.args):
        bound[p] = a
    for k in call.keywords:
        if k.arg not in params + kwonly or k.arg in bound:
            return None
        bound[k.arg] = k.value
    for p in params + kwonly:
        if p not in bound:
            if p not in defaults:
                return None
            bound[p] = defaults[p]
    return bound


def _returns_to(stmts: list[ast.stmt], form: str, target: T.Any, at: ast.AST) -> list[ast.stmt]:
    """Replace the tail-position returns of `stmts` according to the calling form."""
    out = list(stmts)
    if not out:
        return _no_return(form, target, at)
    last = out[-1]
    if isinstance(last, ast.Return):
        val = last.value
        if form == "assign":
            if isinstance(val, ast.Name) and isinstance(target, ast.Name) and val.id == target.id:
                rep = []
            else:
                rep = [ast.copy_location(ast.Assign(targets=[_clone(target)], value=val if val is not None else ast.Constant(value=None)), last)]
        elif form == "return":
            rep = [ast.copy_location(ast.Return(value=val), last)]
        elif form == "raise":
            rep = [ast.copy_location(ast.Raise(exc=val, cause=None), last)]
        else:
            rep = [ast.copy_location(ast.Expr(value=val), last)] if val is not None and any(isinstance(x, (ast.Call, ast.Await)) for x in ast.walk(val)) else []
        return out[:-1] + rep
    if isinstance(last, ast.If) and (any(isinstance(x, ast.Return) for x in ast.walk(last))):
        last.body = _returns_to(last.body, form, target, at) or [ast.copy_location(ast.Pass(), last)]
        last.orelse = _returns_to(last.orelse, form, target, at) if last.orelse else _no_return(form, target, at)
        return out
    if isinstance(last, ast.Raise):
        return out
    return out + _no_return(form, target, at)


def _no_return(form: str, target: T.Any, at: ast.AST) -> list[ast.stmt]:
    if form == "assign":
        return [ast.copy_location(ast.Assign(targets=[_clone(target)], value=ast.Constant(value=None)), at)]
    if form == "return":
        return [ast.copy_location(ast.Return(value=None), at)]
    return []


def _observed(fn: T.Any, stmt: ast.stmt, var: str) -> bool:
    """Is `var` read by an exception handler or finally clause that encloses `stmt`?  Then the moment at which the caller's
    variable is bound (only when the helper RETURNS) is observable, and the helper's local must stay a different variable."""
    for t in ast.walk(fn):
        if isinstance(t, ast.Try) and any(stmt is x for b in t.body for x in ast.walk(b)):
            for blk in [h.body for h in t.handlers] + [t.finalbody]:
                if any(isinstance(n, ast.Name) and n.id == var for st in blk for n in ast.walk(st)):
                    return True
    return False


def _expand(call: ast.Call, form: str, target: T.Any, helper: T.Any, receiver: ast.expr | None, serial: int, caller_names: T.Container[str] = frozenset(),
            observed: bool = False) -> list[ast.stmt] | None:
    bound = _bind(call, helper, receiver)
    if bound is None:
        return None
    assigned = {n.id for n in ast.walk(helper) if isinstance(n, ast.Name) and isinstance(n.ctx, ast.Store)} | \
        {n.name for n in ast.walk(helper) if isinstance(n, ast.ExceptHandler) and n.name}
    pre: list[ast.stmt] = []
    mapping: dict[str, ast.AST] = {}
    rename: dict[str, str] = {}
    for p, a in bound.items():
        if (_simple(a) or p == "self") and p not in assigned:
            mapping[p] = a
        else:
            tmp = f"{p}__{helper.name.strip('_')}{serial}"
            rename[p] = tmp
            pre.append(ast.copy_location(ast.Assign(targets=[ast.Name(id=tmp, ctx=ast.Store())], value=_clone(a)), call))
    returned = {r.value.id for r in ast.walk(helper) if isinstance(r, ast.Return) and isinstance(r.value, ast.Name)}
    same_var = target.id if form == "assign" and isinstance(target, ast.Name) and target.id in returned and not observed else None
    for v in assigned:
        if v not in bound and v in caller_names and v != same_var:
            rename[v] = f"{v}__{helper.name.strip('_')}{serial}"
    body = _guard_to_else([_clone(s) for s in _strip_doc(helper.body)])
    sub = _Subst(mapping, rename)
    body = [sub.visit(s) for s in body]
    # annotations of the helper's locals are dropped in the inlined copy (a local may now be bound at several call sites)
    class _DeAnn(ast.NodeTransformer):
        def visit_AnnAssign(self, n: ast.AnnAssign) -> ast.AST:
            if isinstance(n.target, ast.Name) and n.value is not None:
                return ast.copy_location(ast.Assign(targets=[n.target], value=n.value), n)
            return n
    body = [_DeAnn().visit(s) for s in body]
    out = pre + _returns_to(body, form, target, call)
    for s in out:
        ast.fix_missing_locations(s)
    return out or [ast.copy_location(ast.Pass(), call)]


def _blocks(node: ast.AST) -> T.Iterator[list[ast.stmt]]:
    for n in ast.walk(node):
        for field in ("body", "orelse", "finalbody"):
            b = getattr(n, field, None)
            if isinstance(b, list) and b and all(isinstance(x, ast.stmt) for x in b):
                yield b


def _stmt_calls(fn: T.Any) -> set[int]:
    ok = set()
    for blk in _blocks(fn):
        for st in blk:
            c = _call_of(st)
            if c:
                ok.add(id(c[0]))
    return ok


def inline_new_helpers(tree: ast.Module, known_functions: set[str]) -> list[str]:
    """Inline private helpers that are not in `known_functions` (keys 'Class.method' / 'function')."""
    notes: list[str] = []
    counter = [0]
    allf: list[T.Any] = []
    new: dict[str, T.Any] = {}
    owner: dict[str, T.Any] = {}
    dup: set[str] = set()
    for n in tree.body:
        if isinstance(n, FUNC_KINDS):
            allf.append(n)
            n._in_class = False  # type: ignore[attr-defined]
            if n.name.startswith("_") and not n.name.startswith("__") and n.name not in known_functions:
                (dup.add(n.name) if n.name in new else None)
                new[n.name] = n
                owner[n.name] = tree
        elif isinstance(n, ast.ClassDef):
            for m in n.body:
                if isinstance(m, FUNC_KINDS):
                    allf.append(m)
                    m._in_class = True  # type: ignore[attr-defined]
                    if m.name.startswith("_") and not m.name.startswith("__") and f"{n.name}.{m.name}" not in known_functions:
                        (dup.add(m.name) if m.name in new else None)
                        new[m.name] = m
                        owner[m.name] = n
    # a name defined twice, or also defined by a known function of the module, is ambiguous
    known_names = {k.split(".")[-1] for k in known_functions}
    new = {k: v for k, v in new.items() if k not in dup and k not in known_names}
    if not new:
        return notes
    # ---- statement helpers
    stmts = {k: v for k, v in new.items() if inlinable(v)}
    for _ in range(3):
        if not stmts:
            break
        done = 0
        for f in allf:
            caller_names = {n.id for n in ast.walk(f) if isinstance(n, ast.Name)} | {a.arg for a in f.args.args + f.args.kwonlyargs}
            for blk in list(_blocks(f)):
                i = 0
                while i < len(blk):
                    c = _call_of(blk[i])
                    ref = _helper_ref(c[0], stmts) if c else None
                    if c and ref and stmts[ref[0]] is not f:
                        helper = stmts[ref[0]]
                        is_async_call = isinstance(getattr(blk[i], "value", getattr(blk[i], "exc", None)), ast.Await)
                        if isinstance(helper, ast.AsyncFunctionDef) == is_async_call:
                            counter[0] += 1
                            obs = isinstance(c[2], ast.Name) and _observed(f, blk[i], c[2].id)
                            out = _expand(c[0], c[1], c[2], helper, ref[1], counter[0], caller_names, obs)
                            if out is not None:
                                blk[i:i + 1] = out
                                done += 1
                                i += len(out)
                                continue
                    i += 1
        if not done:
            break
    # ---- expression helpers
    exprs = {k: expression_helper(v) for k, v in new.items()}
    exprs = {k: v for k, v in exprs.items() if v is not None}

    class ExprInline(ast.NodeTransformer):
        def __init__(self) -> None:
            self.done = 0

        def visit_Call(self, n: ast.Call) -> ast.AST:
            self.generic_visit(n)
            ref = _helper_ref(n, exprs)
            if ref is None:
                return n
            name, recv = ref
            helper = new[name]
            bound = _bind(n, helper, recv)
            if bound is None:
                return n
            res = _Subst(dict(bound), {}).visit(_clone(exprs[name]))
            for x in ast.walk(res):
                ast.copy_location(x, n)
            self.done += 1
            return res

    for _ in range(3):
        t = ExprInline()
        for f in allf:
            t.generic_visit(f)
        # the stored expressions of helpers that call other helpers are refreshed
        for k_, v_ in list(exprs.items()):
            ne = expression_helper(new[k_])
            if ne is not None:
                exprs[k_] = ne
        if not t.done:
            break
    # ---- statement helpers called in FIRST-EVALUATED expression position of a statement: hoist
    #      `if helper(a) or X:`  ->  `t = <helper body>; if t or X:`   (exact: the call is what the statement evaluates first)
    def first_evaluated(e: ast.AST) -> list[ast.AST]:
        """The first sub-expression (in evaluation order) that is not side-effect free, as a one-element list - or [] when a
        conditional construct makes the order depend on values.  Names, constants and attribute chains on them are skipped."""
        def pure_leaf(x: ast.AST) -> bool:
            while isinstance(x, ast.Attribute):
                x = x.value
            return isinstance(x, (ast.Name, ast.Constant))

        def walk(x: ast.AST) -> ast.AST | None | bool:
            """first impure node, None if x is entirely pure, False if undecidable"""
            if pure_leaf(x):
                return None
            if isinstance(x, ast.Await) and isinstance(x.value, ast.Call):
                inner = walk_call_parts(x.value)
                return x if inner is None else inner
            if isinstance(x, ast.Call):
                inner = walk_call_parts(x)
                return x if inner is None else inner
            if isinstance(x, ast.BoolOp):
                return walk(x.values[0]) if walk(x.values[0]) is not None else False
            if isinstance(x, ast.IfExp):
                return walk(x.test) if walk(x.test) is not None else False
            if isinstance(x, ast.UnaryOp):
                return walk(x.operand)
            if isinstance(x, ast.Compare):
                seq = [x.left] + list(x.comparators)
            elif isinstance(x, ast.BinOp):
                seq = [x.left, x.right]
            elif isinstance(x, (ast.List, ast.Tuple, ast.Set)):
                seq = list(x.elts)
            elif isinstance(x, ast.Subscript):
                seq = [x.value, x.slice]
            elif isinstance(x, ast.Starred):
                seq = [x.value]
            else:
                return False
            for y in seq:
                r = walk(y)
                if r is not None:
                    return r
            return None

        def walk_call_parts(c: ast.Call) -> ast.AST | None | bool:
            parts: list[ast.AST] = []
            if not pure_leaf(c.func):
                parts.append(c.func.value if isinstance(c.func, ast.Attribute) else c.func)
            parts += list(c.args) + [k.value for k in c.keywords]
            for y in parts:
                r = walk(y)
                if r is not None:
                    return r
            return None

        r = walk(e)
        return [r] if isinstance(r, ast.AST) else []

    def host_expr(st: ast.stmt) -> tuple[ast.AST, str] | None:
        if isinstance(st, ast.If):
            return st, "test"
        if isinstance(st, (ast.Assign, ast.AnnAssign, ast.Return, ast.Expr)) and getattr(st, "value", None) is not None:
            return st, "value"
        return None

    for _ in range(3):
        if not stmts:
            break
        done = 0
        for f in allf:
            caller_names = {n.id for n in ast.walk(f) if isinstance(n, ast.Name)} | {a.arg for a in f.args.args + f.args.kwonlyargs}
            for blk in list(_blocks(f)):
                i = 0
                while i < len(blk):
                    h = host_expr(blk[i])
                    if h is not None:
                        holder, field = h
                        spine = first_evaluated(getattr(holder, field))
                        hit = None
                        for e in spine:
                            c = e.value if isinstance(e, ast.Await) else e
                            if isinstance(c, ast.Call):
                                ref = _helper_ref(c, stmts)
                                if ref and stmts[ref[0]] is not f and isinstance(stmts[ref[0]], ast.AsyncFunctionDef) == isinstance(e, ast.Await) \
                                        and not (e is getattr(holder, field) and field == "value" and not isinstance(holder, ast.If) and _call_of(blk[i])):
                                    hit = (e, c, ref)
                                    break
                        if hit is not None:
                            e, c, ref = hit
                            counter[0] += 1
                            tmp = f"{ref[0].strip('_')}__v{counter[0]}"
                            out = _expand(c, "assign", ast.Name(id=tmp, ctx=ast.Store()), stmts[ref[0]], ref[1], counter[0], caller_names)
                            if out is not None:
                                new_name = ast.copy_location(ast.Name(id=tmp, ctx=ast.Load()), e)

                                class Rep(ast.NodeTransformer):
                                    def generic_visit(self, n: ast.AST) -> ast.AST:
                                        if n is e:
                                            return new_name
                                        return super().generic_visit(n)
                                setattr(holder, field, Rep().visit(getattr(holder, field)))
                                blk[i:i] = out
                                done += 1
                                i += len(out)
                    i += 1
        if not done:
            break
    # ---- drop helpers that are no longer referenced (iteratively: a helper used only by dropped helpers goes too)
    handled = [n_ for n_ in new if n_ in exprs or n_ in stmts]
    dropped: set[str] = set()
    changed = True
    while changed:
        changed = False
        for name in handled:
            if name in dropped:
                continue
            h = new[name]
            still = any((isinstance(n, ast.Attribute) and n.attr == name) or (isinstance(n, ast.Name) and n.id == name)
                        for f in allf if f is not h and not (f.name in dropped and new.get(f.name) is f) for n in ast.walk(f))
            if not still:
                body = owner[name].body
                if h in body:
                    body.remove(h)
                    if not body:
                        body.append(ast.Pass())
                dropped.add(name)
                changed = True
    for name in handled:
        notes.append(f"new helper {name} inlined into its call sites" + ("" if name in dropped else " (kept: still referenced)"))
    return notes
