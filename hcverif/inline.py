"""Un-refactoring of *new* private helpers.

"Extract method" is the commonest behaviour-preserving refactor, and it would move anchored statements
out of the functions the rules look at.  Private helpers (methods `self._x(...)` of the same class, or
module-level `_x(...)`) that do not exist in the committed baseline and have a simple shape are inlined
back into their call sites in the in-memory AST before any analysis runs.  A helper is inlined only when
every call of it is in a statement position (`self._x(..)`, `v = self._x(..)`, `return self._x(..)`,
with or without `await`) and its body has no yield, no nested definition, no *args/**kwargs, and no
`return` other than an optional last top-level one.  Parameters are substituted by the argument
expressions (simple arguments directly, others through a temporary); the helper's locals get a suffix.
Anything that does not fit is left exactly as written (the rules then see the new helper as it is)."""
from __future__ import annotations

import ast
import typing as T

FUNC_KINDS = (ast.FunctionDef, ast.AsyncFunctionDef)


def _clone(node: T.Any) -> T.Any:
    if isinstance(node, ast.AST):
        new = node.__class__()
        for f in node._fields:
            if hasattr(node, f):
                setattr(new, f, _clone(getattr(node, f)))
        for a in ("lineno", "col_offset", "end_lineno", "end_col_offset"):
            if hasattr(node, a):
                setattr(new, a, getattr(node, a))
        return new
    if isinstance(node, list):
        return [_clone(x) for x in node]
    return node


def _strip_doc(body: list[ast.stmt]) -> list[ast.stmt]:
    if body and isinstance(body[0], ast.Expr) and isinstance(body[0].value, ast.Constant) and isinstance(body[0].value.value, str):
        return body[1:]
    return body


def inlinable(fn: T.Any) -> bool:
    if fn.decorator_list or fn.args.vararg or fn.args.kwarg or fn.args.posonlyargs:
        return False
    body = _strip_doc(fn.body)
    if not body:
        return False
    for n in ast.walk(fn):
        if isinstance(n, (ast.Yield, ast.YieldFrom, ast.Lambda, ast.ClassDef, ast.Global, ast.Nonlocal)) or (isinstance(n, FUNC_KINDS) and n is not fn):
            return False
    rets = [n for n in ast.walk(fn) if isinstance(n, ast.Return)]
    if len(rets) > 1 or (rets and rets[0] is not body[-1]):
        return False
    return True


def _call_of(st: ast.stmt) -> tuple[ast.Call, str, T.Any] | None:
    """(call, form, target) if the statement is a helper call in statement position."""
    def unwrap(e: T.Any) -> ast.Call | None:
        if isinstance(e, ast.Await):
            e = e.value
        return e if isinstance(e, ast.Call) else None
    if isinstance(st, ast.Expr):
        c = unwrap(st.value)
        return (c, "expr", None) if c else None
    if isinstance(st, ast.Assign) and len(st.targets) == 1:
        c = unwrap(st.value)
        return (c, "assign", st.targets[0]) if c else None
    if isinstance(st, ast.AnnAssign) and st.value is not None:
        c = unwrap(st.value)
        return (c, "assign", st.target) if c else None
    if isinstance(st, ast.Return) and st.value is not None:
        c = unwrap(st.value)
        return (c, "return", None) if c else None
    return None


def _helper_name(call: ast.Call, method: bool) -> str | None:
    f = call.func
    if method and isinstance(f, ast.Attribute) and isinstance(f.value, ast.Name) and f.value.id == "self":
        return f.attr
    if not method and isinstance(f, ast.Name):
        return f.id
    return None


def _simple(e: ast.AST) -> bool:
    while isinstance(e, ast.Attribute):
        e = e.value
    return isinstance(e, (ast.Name, ast.Constant))


class _Subst(ast.NodeTransformer):
    def __init__(self, mapping: dict[str, ast.AST], rename: dict[str, str]):
        self.mapping, self.rename = mapping, rename

    def visit_Name(self, n: ast.Name) -> ast.AST:
        if n.id in self.mapping and isinstance(n.ctx, ast.Load):
            return _clone(self.mapping[n.id])
        if n.id in self.rename:
            return ast.copy_location(ast.Name(id=self.rename[n.id], ctx=n.ctx), n)
        return n

    def visit_ExceptHandler(self, n: ast.ExceptHandler) -> ast.AST:
        self.generic_visit(n)
        if n.name in self.rename:
            n.name = self.rename[n.name]
        return n


def _expand(call: ast.Call, form: str, target: T.Any, helper: T.Any, method: bool, serial: int, caller_names: set[str] = frozenset()) -> list[ast.stmt] | None:
    params = [a.arg for a in helper.args.args]
    defaults = dict(zip(params[len(params) - len(helper.args.defaults):], helper.args.defaults))
    kwonly = [a.arg for a in helper.args.kwonlyargs]
    for a, d in zip(helper.args.kwonlyargs, helper.args.kw_defaults):
        if d is not None:
            defaults[a.arg] = d
    if method:
        if not params or params[0] != "self":
            return None
        params = params[1:]
    bound: dict[str, ast.AST] = {}
    if any(isinstance(a, ast.Starred) for a in call.args) or any(k.arg is None for k in call.keywords):
        return None
    if len(call.args) > len(params):
        return None
    for p, a in zip(params, call.args):
        bound[p] = a
    for k in call.keywords:
        if k.arg not in params + kwonly or k.arg in bound:
            return None
        bound[k.arg] = k.value
    for p in params + kwonly:
        if p not in bound:
            if p not in defaults:
                return None
            bound[p] = defaults[p]
    assigned = {n.id for n in ast.walk(helper) if isinstance(n, ast.Name) and isinstance(n.ctx, ast.Store)} | \
        {n.name for n in ast.walk(helper) if isinstance(n, ast.ExceptHandler) and n.name}
    pre: list[ast.stmt] = []
    mapping: dict[str, ast.AST] = {}
    rename: dict[str, str] = {}
    for p, a in bound.items():
        if _simple(a) and p not in assigned:
            mapping[p] = a
        else:
            tmp = f"{p}__{helper.name.strip('_')}{serial}"
            rename[p] = tmp
            pre.append(ast.copy_location(ast.Assign(targets=[ast.Name(id=tmp, ctx=ast.Store())], value=_clone(a)), call))
    for v in assigned:
        if v not in bound and v in caller_names:
            # the caller has a variable of the same name: keep them apart (helper locals are dead after the call)
            rename[v] = f"{v}__{helper.name.strip('_')}{serial}"
    body = [_clone(s) for s in _strip_doc(helper.body)]
    sub = _Subst(mapping, rename)
    body = [sub.visit(s) for s in body]
    out = pre
    last = body[-1] if body else None
    if isinstance(last, ast.Return):
        body = body[:-1]
        val = last.value
        if form == "assign":
            tail: list[ast.stmt] = [ast.copy_location(ast.Assign(targets=[_clone(target)], value=val if val is not None else ast.Constant(value=None)), last)]
        elif form == "return":
            tail = [ast.copy_location(ast.Return(value=val), last)]
        else:
            tail = [ast.copy_location(ast.Expr(value=val), last)] if val is not None and any(isinstance(x, (ast.Call, ast.Await)) for x in ast.walk(val)) else []
    else:
        if form == "assign":
            tail = [ast.copy_location(ast.Assign(targets=[_clone(target)], value=ast.Constant(value=None)), call)]
        elif form == "return":
            tail = [ast.copy_location(ast.Return(value=None), call)]
        else:
            tail = []
    out = out + body + tail
    for s in out:
        ast.fix_missing_locations(s)
    return out or [ast.copy_location(ast.Pass(), call)]


def _blocks(node: ast.AST) -> T.Iterator[list[ast.stmt]]:
    for n in ast.walk(node):
        for field in ("body", "orelse", "finalbody"):
            b = getattr(n, field, None)
            if isinstance(b, list) and b and all(isinstance(x, ast.stmt) for x in b):
                yield b


def _calls_outside_stmt_position(scope: list[T.Any], name: str, method: bool) -> bool:
    """Is the helper ever called (or referenced) other than as a whole statement?"""
    for fn in scope:
        ok_calls = set()
        for blk in _blocks(fn):
            for st in blk:
                c = _call_of(st)
                if c and _helper_name(c[0], method) == name:
                    ok_calls.add(id(c[0]))
        for n in ast.walk(fn):
            if isinstance(n, ast.Call) and _helper_name(n, method) == name and id(n) not in ok_calls:
                return True
            if method and isinstance(n, ast.Attribute) and isinstance(n.value, ast.Name) and n.value.id == "self" and n.attr == name:
                # referenced as a value (callback) rather than called
                pass
    return False


def _inline_into(fn: T.Any, helpers: dict[str, T.Any], method: bool, counter: list[int]) -> int:
    done = 0
    # names the caller itself uses (outside the helper-call statements)
    caller_names = {n.id for n in ast.walk(fn) if isinstance(n, ast.Name)} | {a.arg for a in fn.args.args + fn.args.kwonlyargs}
    for blk in list(_blocks(fn)):
        i = 0
        while i < len(blk):
            st = blk[i]
            c = _call_of(st)
            name = _helper_name(c[0], method) if c else None
            if c and name in helpers and helpers[name] is not fn:
                counter[0] += 1
                new = _expand(c[0], c[1], c[2], helpers[name], method, counter[0], caller_names)
                if new is not None:
                    blk[i:i + 1] = new
                    done += 1
                    i += len(new)
                    continue
            i += 1
    return done


def inline_new_helpers(tree: ast.Module, known_functions: set[str]) -> list[str]:
    """Inline private helpers that are not in `known_functions` (keys 'Class.method' / 'function')."""
    notes: list[str] = []
    counter = [0]
    # methods
    for cls in [n for n in tree.body if isinstance(n, ast.ClassDef)]:
        methods = [m for m in cls.body if isinstance(m, FUNC_KINDS)]
        cand = {m.name: m for m in methods if m.name.startswith("_") and not m.name.startswith("__")
                and f"{cls.name}.{m.name}" not in known_functions and inlinable(m)}
        cand = {n: m for n, m in cand.items() if not _calls_outside_stmt_position(methods, n, True)
                and any(_helper_name(c[0], True) == n for f in methods for blk in _blocks(f) for st in blk for c in [_call_of(st)] if c)}
        for _ in range(3):
            if not cand:
                break
            n = sum(_inline_into(m, cand, True, counter) for m in methods)
            if not n:
                break
        for name, m in cand.items():
            still = any(isinstance(n, ast.Attribute) and n.attr == name for n in ast.walk(tree) if not any(n is x for x in ast.walk(m)))
            if not still and m in cls.body:
                cls.body.remove(m)
            notes.append(f"new helper {cls.name}.{name} inlined into its call sites" + ("" if not still else " (kept: still referenced)"))
    # module-level functions (called from anywhere in the module)
    funcs = [n for n in tree.body if isinstance(n, FUNC_KINDS)]
    allf = funcs + [m for c in tree.body if isinstance(c, ast.ClassDef) for m in c.body if isinstance(m, FUNC_KINDS)]
    cand = {f.name: f for f in funcs if f.name.startswith("_") and not f.name.startswith("__") and f.name not in known_functions and inlinable(f)}
    cand = {n: f for n, f in cand.items() if not _calls_outside_stmt_position(allf, n, False)
            and any(_helper_name(c[0], False) == n for g in allf for blk in _blocks(g) for st in blk for c in [_call_of(st)] if c)}
    for _ in range(3):
        if not cand:
            break
        n = sum(_inline_into(g, cand, False, counter) for g in allf)
        if not n:
            break
    for name, g in cand.items():
        still = any(isinstance(n, ast.Name) and n.id == name for n in ast.walk(tree) if not any(n is x for x in ast.walk(g)))
        if not still and g in tree.body:
            tree.body.remove(g)
        notes.append(f"new helper {name} inlined into its call sites")
    return notes
