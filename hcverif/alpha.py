"""Alpha-normalisation of local variable names.

Renaming the locals of a function consistently is semantics-preserving, and many rule texts mention
the local names of the pinned tree (`stream_id`, `available_connections`, ...).  To keep such rules
silent under a pure rename, each function's locals are matched against a committed baseline
(`locals_baseline.json`: for every function of the pinned tree, each local with a *signature* of its
first definition in which all local names are anonymised) and, where a local with the same signature
now has a different name, the in-memory AST is renamed back to the baseline name.  The renaming is
applied only when it is an injective alpha-conversion (no capture of any other name used in the
function).  Nothing else about the program is changed; reports keep the real file:line."""
from __future__ import annotations

import ast
import json
import os
import re
import typing as T

BASELINE = os.path.join(os.path.dirname(os.path.abspath(__file__)), "locals_baseline.json")
FUNC_KINDS = (ast.FunctionDef, ast.AsyncFunctionDef)


def _own(func: ast.AST) -> T.Iterator[ast.AST]:
    todo = list(ast.iter_child_nodes(func))
    while todo:
        n = todo.pop()
        yield n
        if isinstance(n, FUNC_KINDS + (ast.ClassDef, ast.Lambda)):
            continue
        todo.extend(ast.iter_child_nodes(n))


def _params(func: T.Any) -> set[str]:
    a = func.args
    out = {x.arg for x in a.posonlyargs + a.args + a.kwonlyargs}
    if a.vararg:
        out.add(a.vararg.arg)
    if a.kwarg:
        out.add(a.kwarg.arg)
    return out


def locals_of(func: T.Any) -> list[str]:
    """Local names in order of first binding."""
    params = _params(func)
    declared: set[str] = set()
    binds: list[tuple[int, int, str]] = []
    for n in _own(func):
        if isinstance(n, (ast.Global, ast.Nonlocal)):
            declared |= set(n.names)
        elif isinstance(n, ast.Name) and isinstance(n.ctx, ast.Store):
            binds.append((n.lineno, n.col_offset, n.id))
        elif isinstance(n, ast.ExceptHandler) and n.name:
            binds.append((n.lineno, n.col_offset, n.name))
    out: list[str] = []
    for _, _, name in sorted(binds):
        if name not in params and name not in declared and name not in out:
            out.append(name)
    return out


def _parents(func: ast.AST) -> dict[int, ast.AST]:
    par: dict[int, ast.AST] = {}
    for n in ast.walk(func):
        for c in ast.iter_child_nodes(n):
            par[id(c)] = n
    return par


def signatures(func: T.Any) -> list[tuple[str, str]]:
    """(local name, signature of its first definition with local names anonymised)."""
    names = locals_of(func)
    nameset = set(names)
    par = _parents(func)

    class Anon(ast.NodeTransformer):
        def visit_Name(self, n: ast.Name) -> ast.AST:
            return ast.copy_location(ast.Name(id="_L", ctx=n.ctx), n) if n.id in nameset else n

    def anon(e: ast.AST | None) -> str:
        if e is None:
            return ""
        from .load import clone

        return re.sub(r"\s+", "", ast.unparse(Anon().visit(clone(e))))

    first: dict[str, tuple[int, int, ast.AST]] = {}
    for n in _own(func):
        if isinstance(n, ast.Name) and isinstance(n.ctx, ast.Store) and n.id in nameset:
            k = (n.lineno, n.col_offset)
            if n.id not in first or k < first[n.id][:2]:
                first[n.id] = (n.lineno, n.col_offset, n)
        elif isinstance(n, ast.ExceptHandler) and n.name in nameset:
            k = (n.lineno, n.col_offset)
            if n.name not in first or k < first[n.name][:2]:
                first[n.name] = (n.lineno, n.col_offset, n)
    out = []
    for name in names:
        node = first[name][2]
        if isinstance(node, ast.ExceptHandler):
            out.append((name, "except:" + anon(node.type)))
            continue
        # climb to the binding construct
        pos = ""
        cur: ast.AST = node
        p = par.get(id(cur))
        while isinstance(p, (ast.Tuple, ast.List, ast.Starred)):
            if isinstance(p, (ast.Tuple, ast.List)):
                pos = str(p.elts.index(cur)) + "." + pos
            cur, p = p, par.get(id(p))
        if isinstance(p, ast.Assign):
            sig = f"assign:{pos}:{anon(p.value)}"
        elif isinstance(p, ast.AnnAssign):
            sig = f"assign:{pos}:{anon(p.value)}"
        elif isinstance(p, ast.AugAssign):
            sig = f"aug:{anon(p.value)}"
        elif isinstance(p, (ast.For, ast.AsyncFor)):
            sig = f"for:{pos}:{anon(p.iter)}"
        elif isinstance(p, ast.comprehension):
            sig = f"comp:{pos}:{anon(p.iter)}"
        elif isinstance(p, ast.withitem):
            sig = f"with:{anon(p.context_expr)}"
        elif isinstance(p, ast.NamedExpr):
            sig = f"walrus:{anon(p.value)}"
        else:
            sig = f"other:{type(p).__name__}"
        out.append((name, sig))
    return out


_cache: dict[str, T.Any] | None = None


def baseline() -> dict[str, T.Any]:
    global _cache
    if _cache is None:
        try:
            with open(BASELINE, encoding="utf-8") as f:
                _cache = json.load(f)
        except FileNotFoundError:
            _cache = {}
    return _cache


def rename_map(func: T.Any, base: list[list[str]]) -> dict[str, str]:
    """current local name -> baseline name, for locals whose signature matches a baseline local of another name."""
    cur = signatures(func)
    cur_names = {n for n, _ in cur}
    base_names = {n for n, _ in base}
    if cur_names == base_names:
        return {}
    unmatched_base = [(n, s) for n, s in base if n not in cur_names]
    mapping: dict[str, str] = {}
    for name, sig in cur:
        if name in base_names:
            continue
        for i, (bn, bs) in enumerate(unmatched_base):
            if bs == sig:
                mapping[name] = bn
                del unmatched_base[i]
                break
    if not mapping:
        return {}
    # a second pass: signatures that mention other (renamed) locals were anonymised, so they already match
    # safety: injective, and no target name is otherwise used in the function
    targets = list(mapping.values())
    if len(set(targets)) != len(targets):
        return {}
    used = {n.id for n in ast.walk(func) if isinstance(n, ast.Name)} | _params(func)
    for src, dst in mapping.items():
        if dst in used and dst not in mapping:
            return {}
    return mapping


def apply(func: T.Any, mapping: dict[str, str]) -> None:
    for n in _own(func):
        if isinstance(n, ast.Name) and n.id in mapping:
            n.id = mapping[n.id]
        elif isinstance(n, ast.ExceptHandler) and n.name in mapping:
            n.name = mapping[n.name]


def normalise_module(relpath: str, tree: ast.Module) -> list[str]:
    """Rename locals back to their baseline names where only the name changed.  Returns notes."""
    base = baseline().get(relpath)
    if not base:
        return []
    notes = []
    known = base.get("__functions__")
    if known is not None:
        from .inline import inline_new_helpers

        notes += [f"{relpath}: {n}" for n in inline_new_helpers(tree, set(known))]
    from .canon import canonicalise

    g = base.get("__globals__")
    ca = base.get("__class_attrs__")
    canonicalise(tree, set(g) if g is not None else None, set(ca) if ca is not None else None)
    for cls_name, node in _functions(tree):
        key = f"{cls_name}.{node.name}" if cls_name else node.name
        b = base.get(key)
        if not b:
            continue
        m = rename_map(node, b)
        if m:
            apply(node, m)
            notes.append(f"{relpath}:{key}: locals alpha-renamed to baseline names {m}")
    return notes


def _abs_module(rel: str, level: int, mod: str | None) -> str:
    name = rel[:-3].replace(os.sep, ".")
    package = name[: -len(".__init__")] if name.endswith(".__init__") else name.rsplit(".", 1)[0]
    if level == 0:
        return mod or ""
    parts = package.split(".")
    base_ = parts[: len(parts) - (level - 1)]
    return ".".join(base_ + (mod.split(".") if mod else []))


def _holding_context_managers(trees: dict[str, ast.Module], notes: dict[str, list[str]]) -> None:
    """`with lock.held_for(args):` where `held_for` is a (async)contextmanager method of a lock-like class of _synchronization.py (one that is itself a context
    manager) whose body is exactly  acquire(..) / try: yield / finally: release()  holds the lock for the block: it is the lock region `with lock:` (how long the
    acquisition may wait, and which class it raises when it gives up, is not what the lock-region rules judge)."""
    syn = next((t for rel, t in trees.items() if rel.replace(os.sep, "/").endswith("httpcore/_synchronization.py")), None)
    if syn is None:
        return
    names: set[str] = set()
    for c in [n for n in syn.body if isinstance(n, ast.ClassDef)]:
        meths = {m.name: m for m in c.body if isinstance(m, FUNC_KINDS)}
        if not ({"__enter__", "__aenter__"} & set(meths)):
            continue
        for m in meths.values():
            if not any("contextmanager" in ast.unparse(d) for d in m.decorator_list):
                continue
            body = [st for st in m.body if not (isinstance(st, ast.Expr) and isinstance(st.value, ast.Constant))]
            if len(body) != 2 or not isinstance(body[1], ast.Try) or body[1].handlers or body[1].orelse:
                continue
            acq = body[0].value if isinstance(body[0], ast.Expr) else None
            acq = acq.value if isinstance(acq, ast.Await) else acq
            tr = body[1]
            rel_ = tr.finalbody[0].value if len(tr.finalbody) == 1 and isinstance(tr.finalbody[0], ast.Expr) else None
            rel_ = rel_.value if isinstance(rel_, ast.Await) else rel_
            ok = isinstance(acq, ast.Call) and ast.unparse(acq.func) in ("self.acquire", "self.__enter__", "self.__aenter__") \
                and len(tr.body) == 1 and isinstance(tr.body[0], ast.Expr) and isinstance(tr.body[0].value, ast.Yield) and tr.body[0].value.value is None \
                and isinstance(rel_, ast.Call) and ast.unparse(rel_.func) == "self.release"
            if ok:
                names.add(m.name)
    if not names:
        return
    for rel, tree in trees.items():
        for w in ast.walk(tree):
            if isinstance(w, (ast.With, ast.AsyncWith)):
                for it in w.items:
                    ce = it.context_expr
                    if it.optional_vars is None and isinstance(ce, ast.Call) and isinstance(ce.func, ast.Attribute) and ce.func.attr in names:
                        it.context_expr = ce.func.value
                        notes[rel].append(f"line {w.lineno}: `with {ast.unparse(ce)[:60]}` read as the lock region `with {ast.unparse(ce.func.value)}`")


def normalise_program(trees: dict[str, ast.Module]) -> dict[str, list[str]]:
    """normalise_module for every unit, plus inlining of NEW module-level helpers across module boundaries (a helper defined in
    one unit and imported by another is un-refactored at its call sites there too)."""
    from .inline import inline_new_helpers
    from .canon import canonicalise

    from . import inline as _inline

    _inline._SERIAL[0] = 0
    base = baseline()
    notes: dict[str, list[str]] = {rel: [] for rel in trees}
    _holding_context_managers(trees, notes)
    known_of: dict[str, set[str] | None] = {}
    exports: dict[str, dict[str, T.Any]] = {}
    class_exports: dict[str, dict[str, ast.ClassDef]] = {}
    known_classes: dict[str, set[str] | None] = {}
    # names that other units import from each unit: a new helper / a method of a new class that is visible to another unit is
    # never dropped by the unit's own pass (it may still be called there in a position the inliner cannot expand)
    imported_from: dict[str, set[str]] = {}
    for rel, tree in trees.items():
        for st in ast.walk(tree):
            if isinstance(st, ast.ImportFrom):
                imported_from.setdefault(_abs_module(rel, st.level, st.module), set()).update(a.name for a in st.names)
    for rel, tree in trees.items():
        b = base.get(rel)
        known = set(b["__functions__"]) if b and b.get("__functions__") is not None else (set() if b is None else None)
        known_of[rel] = known
        if known is None:
            continue
        mod = rel[:-3].replace(os.sep, ".")
        mod = mod[: -len(".__init__")] if mod.endswith(".__init__") else mod
        exports[mod] = {n.name: n for n in tree.body if isinstance(n, FUNC_KINDS) and n.name not in known and not n.name.startswith("__")}
        kc = set(b["__classes__"]) if b and b.get("__classes__") is not None else (set() if b is None else None)
        known_classes[rel] = kc
        class_exports[mod] = {c.name: c for c in tree.body if isinstance(c, ast.ClassDef) and kc is not None and c.name not in kc}
        for c in class_exports[mod].values():
            c._methods = [m for m in c.body if isinstance(m, FUNC_KINDS)]  # type: ignore[attr-defined]   (before the unit's own pass drops unreferenced ones)
            for m in c._methods:  # type: ignore[attr-defined]
                m._in_class = True  # type: ignore[attr-defined]
        if b is not None:
            seen_outside = imported_from.get(mod, set())
            keep = {n for n in exports[mod] if n in seen_outside} | {m.name for cn, c in class_exports[mod].items() if cn in seen_outside for m in c._methods}  # type: ignore[attr-defined]
            notes[rel] += [f"{rel}: {n}" for n in inline_new_helpers(tree, known, keep=keep)]
    for rel, tree in trees.items():
        if known_of.get(rel) is None:
            continue
        extern: dict[str, tuple[T.Any, str, ast.Module]] = {}
        for st in tree.body:
            if isinstance(st, ast.ImportFrom):
                src_mod = _abs_module(rel, st.level, st.module)
                for a in st.names:
                    fn = exports.get(src_mod, {}).get(a.name)
                    if fn is not None:
                        src_rel = next(r for r in trees if (r[:-3].replace(os.sep, ".")) in (src_mod, src_mod + ".__init__"))
                        extern[a.asname or a.name] = (fn, src_mod, trees[src_rel])
                    cls = class_exports.get(src_mod, {}).get(a.name)
                    if cls is not None and a.asname is None:
                        src_rel = next(r for r in trees if (r[:-3].replace(os.sep, ".")) in (src_mod, src_mod + ".__init__"))
                        for m in cls._methods:  # type: ignore[attr-defined]
                            if not m.name.startswith("__"):
                                extern[m.name] = (m, src_mod, trees[src_rel])
        if extern:
            notes[rel] += [f"{rel}: {n}" for n in inline_new_helpers(tree, known_of[rel] or set(), extern=extern)]
    # a helper that was kept for other units' sake and is referenced nowhere any more (every call site, in every unit, was expanded)
    for rel, tree in trees.items():
        mod = rel[:-3].replace(os.sep, ".")
        mod = mod[: -len(".__init__")] if mod.endswith(".__init__") else mod
        for name, fn in list(exports.get(mod, {}).items()):
            if fn in tree.body:
                body_ids = {id(x) for x in ast.walk(fn)}
                used = any(((isinstance(n, ast.Name) and n.id == name) or (isinstance(n, ast.Attribute) and n.attr == name)) and id(n) not in body_ids
                           for t2 in trees.values() for n in ast.walk(t2))
                if not used:
                    tree.body.remove(fn)
                    for t2 in trees.values():
                        for st in list(t2.body):
                            if isinstance(st, ast.ImportFrom):
                                st.names = [a for a in st.names if a.name != name] or st.names
    # NEW literal module constants that another unit imports are copied to their uses there (within a unit canon does that)
    from .canon import _literal as _lit, _clone as _cl

    const_exports: dict[str, dict[str, ast.AST]] = {}
    for rel, tree in trees.items():
        b = base.get(rel)
        g = set(b["__globals__"]) if b and b.get("__globals__") is not None else (set() if b is None else None)
        if g is None:
            continue
        mod = rel[:-3].replace(os.sep, ".")
        mod = mod[: -len(".__init__")] if mod.endswith(".__init__") else mod
        binds: dict[str, list[ast.AST]] = {}
        for st in tree.body:
            if isinstance(st, ast.Assign) and len(st.targets) == 1 and isinstance(st.targets[0], ast.Name):
                binds.setdefault(st.targets[0].id, []).append(st.value)
            elif isinstance(st, ast.AnnAssign) and isinstance(st.target, ast.Name) and st.value is not None:
                binds.setdefault(st.target.id, []).append(st.value)
        const_exports[mod] = {k: v[0] for k, v in binds.items() if k not in g and len(v) == 1 and _lit(v[0]) and (k.startswith("_") or k.isupper())
                              and sum(1 for n in ast.walk(tree) if isinstance(n, ast.Name) and n.id == k and isinstance(n.ctx, (ast.Store, ast.Del))) == 1}
    for rel, tree in trees.items():
        got: dict[str, ast.AST] = {}
        for st in ast.walk(tree):
            if isinstance(st, ast.ImportFrom):
                src_mod = _abs_module(rel, st.level, st.module)
                for a in st.names:
                    if a.name in const_exports.get(src_mod, {}):
                        got[a.asname or a.name] = const_exports[src_mod][a.name]
        if got:
            class _CS(ast.NodeTransformer):
                def visit_Name(self, n: ast.Name) -> ast.AST:
                    if isinstance(n.ctx, ast.Load) and n.id in got:
                        new = _cl(got[n.id])
                        for x in ast.walk(new):
                            ast.copy_location(x, n)
                        return new
                    return n
            for fn in [n for n in ast.walk(tree) if isinstance(n, FUNC_KINDS)]:
                shadow = {a.arg for a in fn.args.args + fn.args.kwonlyargs} | {x.id for x in ast.walk(fn) if isinstance(x, ast.Name) and isinstance(x.ctx, ast.Store)}
                if not (shadow & set(got)):
                    _CS().generic_visit(fn)
    from .records import dissolve_objects, scalarise

    for rel, ns in dissolve_objects(trees, known_classes, _abs_module).items():
        notes[rel] += ns
    # generated fields `holder__attr` go back to the reference tree's field names (same owner class, a field of the reference
    # tree that no longer exists, initialised by the same expression, names that agree in their last word)
    for rel, tree in trees.items():
        b = base.get(rel)
        bf = (b or {}).get("__fields__")
        if not bf:
            continue
        for c in [n for n in ast.walk(tree) if isinstance(n, ast.ClassDef)]:
            init = next((m for m in c.body if isinstance(m, FUNC_KINDS) and m.name == "__init__"), None)
            if init is None:
                continue
            now: dict[str, str] = {}
            for st in ast.walk(init):
                tg = st.targets if isinstance(st, ast.Assign) else [st.target] if isinstance(st, ast.AnnAssign) and st.value is not None else []
                for t in tg:
                    if isinstance(t, ast.Attribute) and isinstance(t.value, ast.Name) and t.value.id == "self":
                        now.setdefault(t.attr, ast.unparse(st.value))
            ref = {k.split(".", 1)[1]: v for k, v in bf.items() if k.startswith(c.name + ".")}
            missing = {k: v for k, v in ref.items() if k not in now}
            for gen in [k for k in now if "__" in k.strip("_") and k not in ref]:
                last = gen.rsplit("__", 1)[1].strip("_")
                cands = [k for k in missing if k.strip("_").endswith(last) or last.endswith(k.strip("_"))]
                same_init = [k for k in cands if missing[k] == now[gen]]
                pick = same_init if len(same_init) == 1 else cands if len(cands) == 1 else []
                if len(pick) == 1:
                    for n in ast.walk(tree):
                        if isinstance(n, ast.Attribute) and n.attr == gen:
                            n.attr = pick[0]
                    notes[rel].append(f"{rel}:{c.name}: generated field {gen} renamed to the reference field {pick[0]}")
                    missing.pop(pick[0])

    for rel, ns in scalarise(trees, known_classes, _abs_module).items():
        notes[rel] += ns
    for rel, tree in trees.items():
        b = base.get(rel)
        if not b:
            continue
        g = b.get("__globals__")
        ca = b.get("__class_attrs__")
        canonicalise(tree, set(g) if g is not None else None, set(ca) if ca is not None else None)
        for cls_name, node in _functions(tree):
            key = f"{cls_name}.{node.name}" if cls_name else node.name
            bb = b.get(key)
            if not bb:
                continue
            m = rename_map(node, bb)
            if m:
                apply(node, m)
                notes[rel].append(f"{rel}:{key}: locals alpha-renamed to baseline names {m}")
    return notes


def _functions(tree: ast.Module) -> T.Iterator[tuple[str, T.Any]]:
    for n in tree.body:
        if isinstance(n, FUNC_KINDS):
            yield "", n
        elif isinstance(n, ast.ClassDef):
            for m in n.body:
                if isinstance(m, FUNC_KINDS):
                    yield n.name, m


def generate(root: str) -> dict[str, T.Any]:
    out: dict[str, T.Any] = {}
    for dirpath, dirnames, filenames in os.walk(os.path.join(root, "httpcore")):
        dirnames[:] = sorted(d for d in dirnames if d != "__pycache__")
        for fn in sorted(filenames):
            if not fn.endswith(".py"):
                continue
            p = os.path.join(dirpath, fn)
            rel = os.path.relpath(p, root)
            tree = ast.parse(open(p, encoding="utf-8").read())
            from .canon import canonicalise

            module_globals = sorted({t.id for st in tree.body if isinstance(st, ast.Assign) for t in st.targets if isinstance(t, ast.Name)} |
                                    {st.target.id for st in tree.body if isinstance(st, ast.AnnAssign) and isinstance(st.target, ast.Name)})
            class_attrs = sorted(f"{c.name}.{t.id}" for c in ast.walk(tree) if isinstance(c, ast.ClassDef) for st in c.body
                                 for t in ((st.targets if isinstance(st, ast.Assign) else [st.target]) if isinstance(st, (ast.Assign, ast.AnnAssign)) else []) if isinstance(t, ast.Name))
            canonicalise(tree, set(module_globals), set(class_attrs))
            entry: dict[str, T.Any] = {}
            names = []
            for cls_name, node in _functions(tree):
                key = f"{cls_name}.{node.name}" if cls_name else node.name
                names.append(key)
                sigs = signatures(node)
                if sigs:
                    entry[key] = [[n, s] for n, s in sigs]
            entry["__functions__"] = sorted(names)
            entry["__globals__"] = module_globals
            fields: dict[str, str] = {}
            for c in [n for n in ast.walk(tree) if isinstance(n, ast.ClassDef)]:
                init = next((m for m in c.body if isinstance(m, FUNC_KINDS) and m.name == "__init__"), None)
                for st in (ast.walk(init) if init is not None else []):
                    tg = st.targets if isinstance(st, ast.Assign) else [st.target] if isinstance(st, ast.AnnAssign) and st.value is not None else []
                    for t in tg:
                        if isinstance(t, ast.Attribute) and isinstance(t.value, ast.Name) and t.value.id == "self":
                            fields.setdefault(f"{c.name}.{t.attr}", ast.unparse(st.value))
            entry["__fields__"] = fields
            entry["__class_attrs__"] = class_attrs
            entry["__classes__"] = sorted(c.name for c in ast.walk(tree) if isinstance(c, ast.ClassDef))
            out[rel] = entry
    return out


if __name__ == "__main__":
    import sys

    data = generate(sys.argv[1] if len(sys.argv) > 1 else "/repo")
    with open(BASELINE, "w", encoding="utf-8") as f:
        json.dump(data, f, indent=0, sort_keys=True)
        f.write("\n")
    print(f"baseline written: {sum(len(v.get('__functions__', [])) for v in data.values())} functions in {len(data)} files")
