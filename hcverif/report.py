"""E11: reporter - obligations, violations, known findings, evidence, exit codes."""
from __future__ import annotations

import json
import os
import time
import typing as T

from .load import AnalysisError

VERIF = os.path.dirname(os.path.dirname(os.path.abspath(__file__)))
KNOWN_FINDINGS = os.path.join(VERIF, "known_findings.json")


def outroot() -> str:
    """Where evidence/ and out/ are written (redirected by the self-test harness)."""
    return os.environ.get("HCVERIF_OUT") or VERIF


class Obligation:
    __slots__ = ("rule", "key", "ok", "where", "detail", "witness")

    def __init__(self, rule: str, key: str, ok: bool, where: str, detail: str, witness: T.Any = None):
        self.rule, self.key, self.ok, self.where, self.detail, self.witness = rule, key, ok, where, detail, witness

    def as_dict(self) -> dict[str, T.Any]:
        d = {"rule": self.rule, "key": self.key, "ok": self.ok, "where": self.where, "detail": self.detail}
        if self.witness is not None:
            d["witness"] = self.witness
        return d


class Report:
    def __init__(self, prop: str, tier: str = "quick"):
        self.prop = prop
        self.tier = tier
        self.t0 = time.time()
        self.obligations: list[Obligation] = []
        self.notes: list[str] = []
        self.assumptions: list[str] = []
        self.stats: dict[str, T.Any] = {}
        self.rule_texts: dict[str, str] = {}
        self.floors: list[dict[str, T.Any]] = []
        self.floor_failures: list[str] = []
        self.level = "other"
        self.explanation = ""
        self.extra_cov: dict[str, T.Any] = {}

    # -- recording ------------------------------------------------------------------
    # -- borrowing the rules of another property -----------------------------------------
    # A rule of property X that is also a necessary condition of property Y is run by Y under an id of its own: inside
    # `with rep.borrow({"C11.R3": ("C10.R12", "why it is a clause of C10")})` every record for a mapped rule is re-labelled and every
    # other record (rules, obligations, floors, notes, statistics) is dropped.
    _borrow: dict[str, tuple] | None = None

    def borrow(self, mapping: dict[str, tuple]) -> "T.Any":
        rep = self

        class _Ctx:
            def __enter__(self) -> None:
                self.prev = rep._borrow
                self.expl = getattr(rep, "explanation", None)
                self.level = getattr(rep, "level", None)
                rep._borrow = mapping

            def __exit__(self, *a: T.Any) -> None:
                rep._borrow = self.prev
                if self.expl is not None:
                    rep.explanation = self.expl
                if self.level is not None:
                    rep.level = self.level
        return _Ctx()

    def rule(self, rule: str, text: str) -> None:
        if self._borrow is not None:
            if rule not in self._borrow:
                return
            new, why = self._borrow[rule][0], self._borrow[rule][1]
            self.rule_texts[new] = f"{why} [rule {rule}, decided here under this property's id] {text}"
            return
        self.rule_texts[rule] = text

    def ob(self, rule: str, key: str, ok: bool, where: str, detail: str, witness: T.Any = None) -> bool:
        """Record one obligation.  key = tree|function|construct (rule id is prefixed)."""
        if self._borrow is not None:
            if rule not in self._borrow:
                return bool(ok)
            entry = self._borrow[rule]
            if len(entry) > 2 and not entry[2](key, detail):
                return bool(ok)             # an instance of the lender's rule that is not a clause of the borrowing property
            rule = entry[0]
        full = f"{rule}|{key}"
        n = sum(1 for o in self.obligations if o.key == full or o.key.startswith(full + "#"))
        if n:
            full = f"{full}#{n}"
        self.obligations.append(Obligation(rule, full, bool(ok), where, detail, witness))
        return bool(ok)

    def note(self, text: str) -> None:
        if self._borrow is not None:
            return
        if text not in self.notes:
            self.notes.append(text)

    def assume(self, text: str) -> None:
        if self._borrow is not None:
            return
        if text not in self.assumptions:
            self.assumptions.append(text)

    def floor(self, rule: str, what: str, count: int, minimum: int) -> None:
        """Instance floor: the rule must have located at least `minimum` anchors."""
        if self._borrow is not None:
            if rule not in self._borrow:
                return
            rule = self._borrow[rule][0]
        self.floors.append({"rule": rule, "what": what, "count": count, "floor": minimum})
        if count < minimum:
            # deferred: a concrete violation found elsewhere on this tree wins over "anchor lost"
            self.floor_failures.append(
                f"{rule}: located {count} {what}, fewer than the {minimum} confirmed by hand - anchor lost")

    def stat(self, name: str, value: T.Any) -> None:
        if self._borrow is not None:
            return
        self.stats[name] = value

    # -- finishing ------------------------------------------------------------------
    def _known(self) -> list[dict[str, T.Any]]:
        if not os.path.isfile(KNOWN_FINDINGS):
            return []
        with open(KNOWN_FINDINGS, encoding="utf-8") as f:
            data = json.load(f)
        return [k for k in data.get("findings", []) if self.prop in k.get("properties", [k.get("property")])]

    def finish(self) -> int:
        known = self._known()
        key_to_kf: dict[str, dict[str, T.Any]] = {}
        for k in known:
            for key in k.get("keys", []):
                key_to_kf[key] = k
        failed = [o for o in self.obligations if not o.ok]
        matched: dict[str, list[Obligation]] = {}
        new: list[Obligation] = []
        for o in failed:
            kf = key_to_kf.get(o.key)
            if kf is not None:
                matched.setdefault(kf["id"], []).append(o)
            else:
                new.append(o)
        outdir = os.path.join(outroot(), "out", self.prop)
        os.makedirs(outdir, exist_ok=True)
        for fn in os.listdir(outdir):
            if fn.startswith("violation-"):
                os.remove(os.path.join(outdir, fn))
        print(f"== {self.prop} [{self.tier}] obligations={len(self.obligations)} "
              f"discharged={len(self.obligations) - len(failed)} rules={len(self.rule_texts)}")
        for f_ in self.floors:
            print(f"   anchors {f_['rule']}: {f_['count']} {f_['what']} (floor {f_['floor']})")
        for n in self.notes:
            print(f"   note: {n}")
        for k in known:
            if k["id"] in matched:
                obs = matched[k["id"]]
                print(f"KNOWN-FINDING: property={self.prop} {k['id']} {obs[0].rule} {obs[0].where} - {k['what_fails']}")
            else:
                print(f"   note: known finding {k['id']} not reported on this tree (no matching construct)")
        for i, o in enumerate(new):
            path = os.path.join(outdir, f"violation-{i}.json")
            with open(path, "w", encoding="utf-8") as f:
                json.dump({"property": self.prop, "rule": o.rule, "rule_text": self.rule_texts.get(o.rule, ""),
                           **o.as_dict()}, f, indent=1, default=str)
            print(f"   {o.rule} at {o.where}: {o.detail}")
            print(f"      key: {o.key}")
            print(f"VIOLATION property={self.prop} replay={path}")
        self._write_evidence(len(new), matched)
        if new:
            return 1
        if self.floor_failures:
            for ff in self.floor_failures:
                print(f"ANALYSIS-ERROR property={self.prop}: {ff}")
            return 2
        return 0

    def _write_evidence(self, nviol: int, matched: dict[str, list[Obligation]]) -> None:
        obs = self.obligations
        ok = [o for o in obs if o.ok]
        samples = [o.as_dict() for o in obs[:6]] + [o.as_dict() for o in obs if not o.ok][:6]
        per_rule: dict[str, dict[str, int]] = {}
        for o in obs:
            r = per_rule.setdefault(o.rule, {"obligations": 0, "discharged": 0})
            r["obligations"] += 1
            r["discharged"] += int(o.ok)
        cov: dict[str, T.Any] = {
            "obligations": len(obs),
            "discharged": len(ok),
            "evaluations": len(obs),
            "distinct_nontrivial": len({o.key for o in obs}),
            "rule": "one obligation per rule instance located in the current source (key = rule|tree|function|construct); "
                    "distinct = distinct keys; every obligation is a non-trivial structural fact about a located construct",
            "samples": samples or [{"note": "no obligations"}],
            "explanation": self.explanation,
            "checker_cmd": f"./check {self.prop}" + (" --tier thorough" if self.tier == "thorough" else ""),
            "trusted_base": ["CPython ast parser", "hcverif engines (load, cfg, prov, escape, locks)",
                             "third-party boundary summaries (DESIGN.md 2.4)"],
            "rules": {r: {"text": self.rule_texts.get(r, ""), **c} for r, c in per_rule.items()},
            "anchor_floors": self.floors,
            "known_findings_matched": {k: [o.key for o in v] for k, v in matched.items()},
            "notes": self.notes,
            "stats": self.stats,
            "exhaustive": True,
        }
        cov.update(self.extra_cov)
        ev = {
            "property_id": self.prop,
            "tier": self.tier,
            "seed": int(os.environ.get("VERIF_SEED", "0") or 0),
            "level": self.level,
            "coverage": cov,
            "assumptions": self.assumptions,
            "wall_s": round(time.time() - self.t0, 3),
            "violations": nviol,
        }
        os.makedirs(os.path.join(outroot(), "evidence"), exist_ok=True)
        with open(os.path.join(outroot(), "evidence", f"{self.prop}.json"), "w", encoding="utf-8") as f:
            json.dump(ev, f, indent=1, default=str)
            f.write("\n")
