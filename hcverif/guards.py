"""Guard stack of a node: the tests (with polarity) that are known to hold whenever control
reaches the node - enclosing if/while/ifexp/bool-op/comprehension conditions plus early exits
(`if not X: raise/return/continue/break`) that precede it in an enclosing block."""
from __future__ import annotations

import ast

from .load import FUNC_KINDS, parent


def always_exits(stmts: list[ast.stmt]) -> bool:
    if not stmts:
        return False
    last = stmts[-1]
    if isinstance(last, (ast.Raise, ast.Return, ast.Continue, ast.Break)):
        return True
    if isinstance(last, ast.If):
        return always_exits(last.body) and always_exits(last.orelse)
    if isinstance(last, (ast.With, ast.AsyncWith)):
        return always_exits(last.body)
    return False


def _stores(node: ast.AST) -> set[str]:
    out = set()
    for n in ast.walk(node):
        if isinstance(n, ast.Name) and isinstance(n.ctx, (ast.Store, ast.Del)):
            out.add(n.id)
        elif isinstance(n, ast.Attribute) and isinstance(n.ctx, (ast.Store, ast.Del)):
            out.add(ast.unparse(n))
    return out


def _mentions(test: ast.expr, names: set[str]) -> bool:
    for n in ast.walk(test):
        if isinstance(n, ast.Name) and n.id in names:
            return True
        if isinstance(n, ast.Attribute) and ast.unparse(n) in names:
            return True
    return False


_EXPANDER = None  # set by Context: expands call-free temporaries inside a guard test (provenance engine)


def set_expander(fn) -> None:
    global _EXPANDER
    _EXPANDER = fn


def guards_of(node: ast.AST) -> list[tuple[ast.expr, bool]]:
    """Raw guards plus, where a test mentions call-free temporaries (`ok = a and b; if ok:`), the test with
    those temporaries expanded (marked with `_orig`)."""
    raw = _guards_of(node)
    if _EXPANDER is None:
        return raw
    out = list(raw)
    for test, pol in raw:
        try:
            t2 = _EXPANDER(test)
        except Exception:  # noqa: BLE001 - expansion is best effort, the raw guard is always kept
            t2 = None
        if t2 is not None and ast.dump(t2) != ast.dump(test):
            t2._orig = test  # type: ignore[attr-defined]
            out.append((t2, pol))
    return out


def _guards_of(node: ast.AST) -> list[tuple[ast.expr, bool]]:
    out: list[tuple[ast.expr, bool]] = []
    child = node
    p = parent(node)
    while p is not None and not isinstance(p, (ast.Lambda, ast.ClassDef, ast.Module)):
        if isinstance(p, ast.If):
            if child in p.body:
                out.append((p.test, True))
            elif child in p.orelse:
                out.append((p.test, False))
        elif isinstance(p, ast.While):
            if child in p.body and not (isinstance(p.test, ast.Constant) and p.test.value is True):
                # the loop test holds at body entry; stores in the body before `child` may invalidate it
                idx = p.body.index(child)
                killed = set()
                for prev in p.body[:idx]:
                    killed |= _stores(prev)
                if not _mentions(p.test, killed):
                    out.append((p.test, True))
        elif isinstance(p, ast.IfExp):
            if child is p.body:
                out.append((p.test, True))
            elif child is p.orelse:
                out.append((p.test, False))
        elif isinstance(p, ast.BoolOp):
            idx = p.values.index(child) if child in p.values else -1
            for prev in p.values[:max(idx, 0)]:
                out.append((prev, isinstance(p.op, ast.And)))
        elif isinstance(p, (ast.ListComp, ast.SetComp, ast.GeneratorExp, ast.DictComp)):
            if child is getattr(p, "elt", None) or child is getattr(p, "key", None) or child is getattr(p, "value", None):
                for g in p.generators:
                    for c in g.ifs:
                        out.append((c, True))
        # early exits earlier in the same block
        for field in ("body", "orelse", "finalbody"):
            blk = getattr(p, field, None)
            if isinstance(blk, list) and child in blk:
                idx = blk.index(child)
                killed: set[str] = set()
                for prev in reversed(blk[:idx]):
                    if isinstance(prev, ast.If) and not _mentions(prev.test, killed):
                        if always_exits(prev.body) and not always_exits(prev.orelse):
                            out.append((prev.test, False))
                        elif prev.orelse and always_exits(prev.orelse) and not always_exits(prev.body):
                            out.append((prev.test, True))
                    killed |= _stores(prev)
        if isinstance(p, FUNC_KINDS):
            break
        child = p
        p = parent(p)
    return out


def enclosing_handlers(node: ast.AST) -> list[ast.ExceptHandler]:
    out = []
    p = parent(node)
    while p is not None and not isinstance(p, FUNC_KINDS + (ast.Lambda, ast.ClassDef)):
        if isinstance(p, ast.ExceptHandler):
            out.append(p)
        p = parent(p)
    return out


def enclosing_trys(node: ast.AST) -> list[ast.Try]:
    """Try statements whose *body* (not handlers / else / finally) contains the node, innermost first."""
    out = []
    child = node
    p = parent(node)
    while p is not None and not isinstance(p, FUNC_KINDS + (ast.Lambda, ast.ClassDef)):
        if isinstance(p, ast.Try) and child in p.body:
            out.append(p)
        child = p
        p = parent(p)
    return out


def enclosing_withs(node: ast.AST) -> list[tuple[ast.With | ast.AsyncWith, ast.withitem]]:
    """(with-statement, item) pairs whose body contains the node, innermost first."""
    out = []
    child = node
    p = parent(node)
    while p is not None and not isinstance(p, FUNC_KINDS + (ast.Lambda, ast.ClassDef)):
        if isinstance(p, (ast.With, ast.AsyncWith)) and child in p.body:
            for item in reversed(p.items):
                out.append((p, item))
        child = p
        p = parent(p)
    return out
