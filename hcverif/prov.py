"""E5: provenance (def-use).  An expression is expanded into alternative *provenance terms*:
ast expressions in which every local name has been replaced by its reaching definition(s),
helper parameters by the arguments of all call sites, and the `kwargs = {...}; f(**kwargs)`
idiom by the dict literal's entries.  Terms are compared as normalised text."""
from __future__ import annotations

import ast
import copy
import itertools
import typing as T

from .cfg import CFG, Node, ReachingDefs, node_defs
from .load import AnalysisError, FuncInfo, clone, norm, strip_await

MAX_ALTS = 96


class Prov:
    def __init__(self, ctx: T.Any):
        self.ctx = ctx
        self._rd: dict[str, ReachingDefs] = {}

    def rd(self, func: FuncInfo) -> ReachingDefs:
        if func.qual not in self._rd:
            self._rd[func.qual] = ReachingDefs(self.ctx.cfg(func))
        return self._rd[func.qual]

    # ---- intra-procedural expansion -------------------------------------------------------------
    def expand(self, expr: ast.AST, func: FuncInfo, at: ast.AST | Node | None = None, depth: int = 8,
               _busy: frozenset[int] = frozenset(), pure: bool = False) -> list[ast.expr]:
        """All alternative expansions of `expr` evaluated at statement `at` of `func`.
        pure=True substitutes only locals defined by call-free expressions (temporaries such as
        `is_connect = request.method == b"CONNECT"`), keeping names bound to results of calls / unpacking."""
        self._pure = pure
        cfg: CFG = self.ctx.cfg(func)
        if isinstance(at, Node):
            node = at
        else:
            nodes = cfg.nodes_for(at if at is not None else expr)
            if not nodes:
                return [clone(expr)]  # type: ignore[list-item]
            node = nodes[0]
        try:
            alts = self._exp(strip_await(expr), func, node, depth, _busy)
        finally:
            self._pure = False
        return alts[:MAX_ALTS]

    def _exp(self, e: ast.AST, func: FuncInfo, node: Node, depth: int, busy: frozenset[int]) -> list[ast.expr]:
        e = strip_await(e)
        if isinstance(e, ast.Name) and isinstance(e.ctx, ast.Load):
            return self._name(e, func, node, depth, busy)
        if isinstance(e, (ast.Constant, ast.JoinedStr, ast.Lambda)):
            return [e]  # type: ignore[list-item]
        if isinstance(e, (ast.ListComp, ast.SetComp, ast.GeneratorExp, ast.DictComp)):
            # expand free names inside the comprehension except its own targets
            bound = {n.id for g in e.generators for n in ast.walk(g.target) if isinstance(n, ast.Name)}
            return [self._subst_free(e, func, node, depth, busy, bound)]
        if not isinstance(e, ast.AST) or not e._fields:
            return [e]  # type: ignore[list-item]
        # generic structural recursion with cross product of children alternatives
        fields: list[tuple[str, T.Any]] = []
        choices: list[list[T.Any]] = []
        for name in e._fields:
            v = getattr(e, name, None)
            if isinstance(v, ast.expr):
                alts = self._exp(v, func, node, depth, busy)
                fields.append((name, "one"))
                choices.append(alts)
            elif isinstance(v, list) and v and all(isinstance(x, (ast.expr, ast.keyword)) for x in v):
                for i, x in enumerate(v):
                    if isinstance(x, ast.keyword):
                        alts = [ast.keyword(arg=x.arg, value=a) for a in self._exp(x.value, func, node, depth, busy)]
                    else:
                        alts = self._exp(x, func, node, depth, busy)
                    fields.append((name, i))
                    choices.append(alts)
            else:
                continue
        out: list[ast.expr] = []
        total = 1
        for c in choices:
            total *= max(len(c), 1)
        if total > MAX_ALTS:
            choices = [c[:1] if len(c) > 1 and total > MAX_ALTS else c for c in choices]
        for combo in itertools.islice(itertools.product(*choices), MAX_ALTS):
            new = copy.copy(e)
            lists: dict[str, list[T.Any]] = {}
            for (name, idx), val in zip(fields, combo):
                if idx == "one":
                    setattr(new, name, val)
                else:
                    if name not in lists:
                        lists[name] = list(getattr(e, name))
                    lists[name][idx] = val
            for name, lst in lists.items():
                setattr(new, name, lst)
            out.append(new)  # type: ignore[arg-type]
        return out or [e]  # type: ignore[list-item]

    def _subst_free(self, e: ast.AST, func: FuncInfo, node: Node, depth: int, busy: frozenset[int], bound: set[str]) -> ast.expr:
        prov = self

        class Sub(ast.NodeTransformer):
            def visit_Name(self, n: ast.Name) -> ast.AST:
                if isinstance(n.ctx, ast.Load) and n.id not in bound:
                    alts = prov._name(n, func, node, depth, busy)
                    if len(alts) == 1:
                        return alts[0]
                    return ast.Call(func=ast.Name(id="__phi__", ctx=ast.Load()), args=alts, keywords=[])
                return n

        return Sub().visit(clone(e))

    def _name(self, e: ast.Name, func: FuncInfo, node: Node, depth: int, busy: frozenset[int]) -> list[ast.expr]:
        rd = self.rd(func)
        defs = rd.defs(e.id, node)
        if not defs or depth <= 0:
            return [e]  # global / builtin / module-level name (or expansion depth exhausted)
        depth -= 1
        out: list[ast.expr] = []
        for d in defs:
            if d.id in busy:
                out.append(ast.Name(id=f"__loop__{e.id}", ctx=ast.Load()))
                continue
            if d is rd.cfg.entry:
                out.append(ast.Name(id=e.id, ctx=ast.Load()))  # parameter
                continue
            a = d.ast
            b2 = busy | {d.id}
            if getattr(self, "_pure", False):
                val = getattr(a, "value", None)
                simple = isinstance(a, (ast.Assign, ast.AnnAssign)) and val is not None and isinstance(getattr(a, "targets", [getattr(a, "target", None)])[0], ast.Name) \
                    and not any(isinstance(x, (ast.Call, ast.Await, ast.Yield, ast.YieldFrom)) for x in ast.walk(val))
                if not simple:
                    out.append(ast.Name(id=e.id, ctx=ast.Load()))
                    continue
            if isinstance(a, ast.Assign) and len(a.targets) == 1 and isinstance(a.targets[0], ast.Name):
                out.extend(self._exp(a.value, func, d, depth, b2))
            elif isinstance(a, ast.AnnAssign) and isinstance(a.target, ast.Name) and a.value is not None:
                out.extend(self._exp(a.value, func, d, depth, b2))
            elif isinstance(a, ast.Assign):
                # tuple unpacking: element i of the value when it is a literal tuple of the same arity
                done = False
                for t in a.targets:
                    if isinstance(t, (ast.Tuple, ast.List)):
                        for i, el in enumerate(t.elts):
                            if isinstance(el, ast.Name) and el.id == e.id:
                                if isinstance(a.value, (ast.Tuple, ast.List)) and len(a.value.elts) == len(t.elts):
                                    out.extend(self._exp(a.value.elts[i], func, d, depth, b2))
                                else:
                                    for v in self._exp(a.value, func, d, depth, b2):
                                        out.append(ast.Subscript(value=ast.Call(func=ast.Name(id="__unpack__", ctx=ast.Load()), args=[v], keywords=[]),
                                                                 slice=ast.Constant(value=i), ctx=ast.Load()))
                                done = True
                if not done:
                    out.append(ast.Name(id=f"__def__{e.id}", ctx=ast.Load()))
            elif isinstance(a, ast.AugAssign):
                out.append(ast.Call(func=ast.Name(id="__aug__", ctx=ast.Load()), args=[ast.Name(id=e.id, ctx=ast.Load()), a.value], keywords=[]))
            elif isinstance(a, (ast.For, ast.AsyncFor)):
                for v in self._exp(a.iter, func, d, depth, b2):
                    out.append(ast.Call(func=ast.Name(id="__elem__", ctx=ast.Load()), args=[v], keywords=[]))
            elif isinstance(a, ast.withitem):
                out.append(ast.Call(func=ast.Name(id="__as__", ctx=ast.Load()), args=[a.context_expr], keywords=[]))
            elif isinstance(a, ast.ExceptHandler):
                out.append(ast.Name(id="__exc__", ctx=ast.Load()))
            else:
                out.append(ast.Name(id=f"__def__{e.id}", ctx=ast.Load()))
        # dedupe
        seen: set[str] = set()
        uniq = []
        for o in out:
            k = norm(o)
            if k not in seen:
                seen.add(k)
                uniq.append(o)
        return uniq

    # ---- argument binding ------------------------------------------------------------------------
    def bind(self, call: ast.Call, callee: FuncInfo, caller: FuncInfo) -> dict[str, list[ast.expr]]:
        """Parameter name -> alternative argument expressions (unexpanded, in the caller's scope).
        Handles positional, keyword and the `kwargs = {...}; f(**kwargs)` idiom."""
        params = callee.positional_params()
        if callee.cls is not None and params[:1] in (["self"], ["cls"]) and not any(d == "staticmethod" for d in callee.decorators):
            params = params[1:]
        out: dict[str, list[ast.expr]] = {}
        for i, a in enumerate(call.args):
            if isinstance(a, ast.Starred):
                raise AnalysisError(f"*args call not modelled at {caller.module.relpath}:{call.lineno}")
            if i < len(params):
                out[params[i]] = [a]
        for k in call.keywords:
            if k.arg is not None:
                out[k.arg] = [k.value]
            else:
                for d in self.dict_literals(k.value, caller, call):
                    for key, val in zip(d.keys, d.values):
                        if not (isinstance(key, ast.Constant) and isinstance(key.value, str)):
                            raise AnalysisError(f"**kwargs dict with non-constant key at {caller.module.relpath}:{call.lineno}")
                        out.setdefault(key.value, []).append(val)
        return out

    def dict_literals(self, e: ast.expr, caller: FuncInfo, at: ast.AST) -> list[ast.Dict]:
        if isinstance(e, ast.Dict):
            return [e]
        if isinstance(e, ast.Name):
            cfg: CFG = self.ctx.cfg(caller)
            nodes = cfg.nodes_for(at)
            if not nodes:
                raise AnalysisError(f"no CFG node for call at {caller.module.relpath}:{getattr(at, 'lineno', 0)}")
            rd = self.rd(caller)
            out = []
            for d in rd.defs(e.id, nodes[0]):
                a = d.ast
                if isinstance(a, ast.Assign) and isinstance(a.value, ast.Dict):
                    out.append(a.value)
                elif isinstance(a, ast.AnnAssign) and isinstance(a.value, ast.Dict):
                    out.append(a.value)
                else:
                    raise AnalysisError(f"**{e.id} is not a dict literal at {caller.module.relpath}:{getattr(at, 'lineno', 0)}")
            if not out:
                raise AnalysisError(f"**{e.id} has no reaching definition at {caller.module.relpath}:{getattr(at, 'lineno', 0)}")
            return out
        raise AnalysisError(f"**<expr> call not modelled at {caller.module.relpath}:{getattr(at, 'lineno', 0)}")

    def arg(self, call: ast.Call, callee: FuncInfo, caller: FuncInfo, param: str) -> list[ast.expr] | None:
        """Argument expression(s) bound to `param`, or None when the default applies."""
        b = self.bind(call, callee, caller)
        return b.get(param)

    # ---- inter-procedural roots ------------------------------------------------------------------
    def roots(self, expr: ast.AST, func: FuncInfo, at: ast.AST | Node | None = None, depth: int = 3,
              lift: T.Callable[[FuncInfo, str], bool] | None = None) -> list[tuple[str, FuncInfo]]:
        """Fully expanded alternative terms (normalised text) with the function in whose scope the
        remaining free names live.  Free names that are parameters of a *private* helper are
        resolved through all call sites of the helper (depth-bounded)."""
        out: list[tuple[str, FuncInfo]] = []
        for alt in self.expand(expr, func, at):
            out.extend(self._lift(alt, func, depth, lift))
        seen = set()
        uniq = []
        for t, f in out:
            if (t, f.qual) not in seen:
                seen.add((t, f.qual))
                uniq.append((t, f))
        return uniq[:MAX_ALTS]

    def _lift(self, term: ast.expr, func: FuncInfo, depth: int,
              lift: T.Callable[[FuncInfo, str], bool] | None = None) -> list[tuple[str, FuncInfo]]:
        params = set(func.param_names()) - {"self", "cls"}
        is_helper = func.name.startswith("_") and not func.name.startswith("__")
        free = [n.id for n in ast.walk(term) if isinstance(n, ast.Name) and n.id in params
                and (lift(func, n.id) if lift is not None else is_helper)]
        callers = [s for s in self.ctx.callgraph.callers_of(func) if s.kind == "call"]
        if not free or depth <= 0 or not callers:
            return [(norm(term), func)]
        out: list[tuple[str, FuncInfo]] = []
        for s in callers:
            call = s.node
            assert isinstance(call, ast.Call)
            bound = self.bind(call, func, s.owner)
            # substitute each free parameter by the (expanded) argument alternatives
            subs: dict[str, list[ast.expr]] = {}
            for p in set(free):
                args = bound.get(p)
                if args is None:
                    d = func.param_default(p)
                    subs[p] = [d if d is not None else ast.Name(id=f"__missing__{p}", ctx=ast.Load())]
                else:
                    alts: list[ast.expr] = []
                    for a in args:
                        alts.extend(self.expand(a, s.owner, call))
                    subs[p] = alts
            names = sorted(subs)
            for combo in itertools.islice(itertools.product(*(subs[n] for n in names)), MAX_ALTS):
                mapping = dict(zip(names, combo))

                class Sub(ast.NodeTransformer):
                    def visit_Name(self, n: ast.Name) -> ast.AST:
                        return clone(mapping[n.id]) if n.id in mapping else n

                new = Sub().visit(clone(term))
                out.extend(self._lift(new, s.owner, depth - 1, lift))
        return out
