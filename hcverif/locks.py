"""E8: lock objects, held sets (lexical with-scopes + must/may hold at function entry over the call
graph + semaphore permits as pseudo-locks), blocking-effect analysis, wait-for graph."""
from __future__ import annotations

import ast
import typing as T

from .callgraph import CallSite
from .guards import enclosing_withs
from .load import FuncInfo, Names, chain, norm, own_nodes, parent

LOCK_CLASSES = {"AsyncLock": "lock", "Lock": "lock", "AsyncThreadLock": "threadlock", "ThreadLock": "threadlock",
                "AsyncSemaphore": "semaphore", "Semaphore": "semaphore", "AsyncEvent": "event", "Event": "event"}
NET_BLOCKING = {"read", "write", "start_tls", "connect_tcp", "connect_unix_socket", "sleep"}


class Locks:
    def __init__(self, ctx: T.Any, N: Names):
        self.ctx = ctx
        self.N = N
        self.types = ctx.types
        self.cg = ctx.callgraph
        self.funcs = {f.qual: f for f in N.functions()}
        # shared helper modules that tree functions call into
        for m in ("httpcore._trace", "httpcore._models", "httpcore._synchronization", "httpcore._utils", "httpcore._ssl", "httpcore._exceptions"):
            for f in ctx.prog.module(m).all_functions():
                self.funcs.setdefault(f.qual, f)
        self._lex: dict[int, list[str]] = {}
        self._must: dict[str, frozenset[str]] = {}
        self._may: dict[str, frozenset[str]] = {}
        self._blocks: dict[str, tuple[str, ...] | None] = {}
        self._compute_entry_sets()
        self._compute_blocking()

    # ---- lock identity ----------------------------------------------------------------------------
    def lock_id(self, e: ast.AST, f: FuncInfo) -> tuple[str, str] | None:
        """(identity, kind) if `e` denotes a lock object: identity = OwnerClass.attr"""
        t = self.types.expr_type(e, f)
        cands = t[1] if t[0] == "union" else [t]
        for c in cands:
            if c[0] == "cls" and c[1].name in LOCK_CLASSES:
                if isinstance(e, ast.Attribute):
                    owner = self.types.expr_type(e.value, f)
                    oname = owner[1].name if owner[0] == "cls" else norm(e.value)
                    return f"{oname}.{e.attr}", LOCK_CLASSES[c[1].name]
                return norm(e), LOCK_CLASSES[c[1].name]
        return None

    def lexical(self, node: ast.AST, f: FuncInfo) -> list[str]:
        """Locks held at `node` through enclosing with / async with statements of f."""
        out = []
        for w, item in enclosing_withs(node):
            lid = self.lock_id(item.context_expr, f)
            if lid is not None and lid[1] in ("lock", "threadlock"):
                out.append(lid[0])
        return out

    def permits_at(self, node: ast.AST, f: FuncInfo) -> list[str]:
        """Semaphore permits held at node: an `X.acquire()` statement of f (outside any loop) that can
        reach the node, with no release in between (statement granularity)."""
        cfg = self.ctx.cfg(f)
        target = cfg.nodes_for(node)
        if not target:
            return []
        out = []
        for n in cfg.nodes:
            if n.kind != "stmt" or n.ast is None:
                continue
            for c in ast.walk(n.ast):
                if isinstance(c, ast.Call) and isinstance(c.func, ast.Attribute) and c.func.attr == "acquire":
                    lid = self.lock_id(c.func.value, f)
                    if lid is None or lid[1] != "semaphore":
                        continue
                    if any(isinstance(a, (ast.For, ast.While, ast.AsyncFor)) for a in _anc(n.ast, f.node)):
                        continue  # pre-acquisition loops adjust the limit, they do not own a stream slot
                    def releases(m) -> bool:
                        return m.ast is not None and m.kind == "stmt" and any(
                            isinstance(x, ast.Call) and isinstance(x.func, ast.Attribute) and x.func.attr == "release" and norm(x.func.value) == norm(c.func.value)
                            for x in ast.walk(m.ast))
                    reach = cfg.reachable([e.dst for e in n.succ if e.kind != "exc"], stop=releases)
                    if target[0].id in reach and target[0] is not n:
                        out.append("permit(" + lid[0] + ")")
        return out

    # ---- held at entry ----------------------------------------------------------------------------
    def _site_held(self, s: CallSite, may: bool) -> frozenset[str]:
        f = s.owner
        node = s.node.context_expr if isinstance(s.node, ast.withitem) else (s.node.iter if isinstance(s.node, ast.comprehension) else s.node)
        held = set(self.lexical(node, f))
        if s.kind in ("enter", "exit") and isinstance(s.node, ast.withitem):
            pass
        if may:
            held |= set(self.permits_at(node, f))
            held |= self._may.get(f.qual, frozenset())
        else:
            held |= self._must.get(f.qual, frozenset())
        return frozenset(held)

    def _compute_entry_sets(self) -> None:
        funcs = list(self.funcs.values())
        TOP = None
        must: dict[str, frozenset[str] | None] = {f.qual: TOP for f in funcs}
        may: dict[str, frozenset[str]] = {f.qual: frozenset() for f in funcs}
        # byte streams own the stream slot of their connection while the response is open
        for f in funcs:
            if f.cls is not None and f.cls.name == "HTTP2ConnectionByteStream" and f.name in ("__aiter__", "__iter__"):
                may[f.qual] = frozenset(["permit(%s._max_streams_semaphore)" % self.N.t("AsyncHTTP2Connection")])
        self._may = may
        self._must = {q: frozenset() for q in must}
        for _ in range(12):
            changed = False
            for f in funcs:
                callers = [s for s in self.cg.callers_of(f) if s.owner.qual in self.funcs]
                if callers:
                    new_must: frozenset[str] | None = None
                    for s in callers:
                        h = frozenset(self.lexical(_site_node(s), s.owner)) | (must[s.owner.qual] or frozenset())
                        new_must = h if new_must is None else (new_must & h)
                    new_may = set(may[f.qual])
                    for s in callers:
                        new_may |= self._site_held(s, True)
                else:
                    new_must = frozenset()
                    new_may = set(may[f.qual])
                if new_must != must[f.qual]:
                    must[f.qual] = new_must
                    changed = True
                if frozenset(new_may) != may[f.qual]:
                    may[f.qual] = frozenset(new_may)
                    self._may = may
                    changed = True
            self._must = {q: (v or frozenset()) for q, v in must.items()}
            if not changed:
                break

    def must_hold(self, node: ast.AST, f: FuncInfo) -> set[str]:
        return set(self.lexical(node, f)) | set(self._must.get(f.qual, frozenset()))

    def may_hold(self, node: ast.AST, f: FuncInfo) -> set[str]:
        return set(self.lexical(node, f)) | set(self.permits_at(node, f)) | set(self._may.get(f.qual, frozenset()))

    # ---- blocking effect -----------------------------------------------------------------------------
    def direct_blocking(self, f: FuncInfo) -> list[tuple[ast.AST, str]]:
        """Blocking operations performed directly by f: lock / semaphore / event waits, network I/O, sleep."""
        out: list[tuple[ast.AST, str]] = []
        esc = self.ctx.escape
        for n in own_nodes(f.node):
            if isinstance(n, (ast.With, ast.AsyncWith)):
                for item in n.items:
                    lid = self.lock_id(item.context_expr, f)
                    if lid is not None and lid[1] in ("lock", "threadlock"):
                        # the async "thread lock" is a no-op by construction (checked: its __enter__ has no body effect)
                        if lid[1] == "threadlock" and self.N.tree == "async":
                            continue
                        out.append((item.context_expr, f"acquire {lid[0]}"))
            elif isinstance(n, ast.Call) and isinstance(n.func, ast.Attribute):
                if n.func.attr in ("acquire", "wait"):
                    lid = self.lock_id(n.func.value, f)
                    if lid is not None and lid[1] in ("semaphore", "event"):
                        out.append((n, f"{n.func.attr} {lid[0]}"))
                for s in self.cg.sites_at(n):
                    for c in s.callees:
                        if c.func is not None and c.func.cls is not None and c.func.cls.qual in esc.net_classes and c.func.name in NET_BLOCKING:
                            out.append((n, f"network {c.func.name}"))
                            break
                    if any(e in ("time.sleep",) for e in s.ext_targets()):
                        out.append((n, "time.sleep"))
            elif isinstance(n, ast.Await) and self.N.tree == "async":
                if self.ctx.escape.await_suspends(n):
                    inner = n.value
                    sites = self.cg.sites_at(inner) if isinstance(inner, ast.Call) else []
                    if not any(t.qual in self.funcs for s in sites for t in s.repo_targets()):
                        out.append((n, "await (suspension point)"))
        return out

    def _compute_blocking(self) -> None:
        esc = self.ctx.escape
        self._blocks = {q: None for q in self.funcs}
        for q, f in self.funcs.items():
            if f.cls is not None and f.cls.qual in esc.net_classes:
                continue
            d = self.direct_blocking(f)
            if d:
                self._blocks[q] = (f"{f.short}: {d[0][1]} (line {getattr(d[0][0], 'lineno', 0)})",)
        changed = True
        while changed:
            changed = False
            for q, f in self.funcs.items():
                if self._blocks[q] is not None or (f.cls is not None and f.cls.qual in esc.net_classes):
                    continue
                for s in self.cg.sites_of(f):
                    for t in s.repo_targets():
                        if t.qual in self._blocks and self._blocks[t.qual] is not None:
                            self._blocks[q] = (f"{f.short} line {s.lineno}",) + self._blocks[t.qual]  # type: ignore[operator]
                            changed = True
                            break
                    if self._blocks[q] is not None:
                        break

    def blocking_chain(self, f: FuncInfo) -> tuple[str, ...] | None:
        return self._blocks.get(f.qual)

    def region_blocking(self, region: ast.AST, f: FuncInfo) -> list[tuple[ast.AST, tuple[str, ...]]]:
        """Blocking operations reachable from inside a syntactic region of f."""
        out: list[tuple[ast.AST, tuple[str, ...]]] = []
        ids = {id(x) for x in ast.walk(region)}
        for node, what in self.direct_blocking(f):
            if id(node) in ids and node is not getattr(region, "items", [None])[0]:
                if isinstance(region, (ast.With, ast.AsyncWith)) and any(node is it.context_expr for it in region.items):
                    continue
                out.append((node, (what,)))
        for s in self.cg.sites_of(f):
            if id(_site_node(s)) in ids or id(s.node) in ids:
                if isinstance(region, (ast.With, ast.AsyncWith)) and any(s.node is it for it in region.items):
                    continue
                for t in s.repo_targets():
                    ch = self._blocks.get(t.qual)
                    if ch is not None:
                        out.append((_site_node(s), (f"{f.short} line {s.lineno}",) + ch))
                        break
        return out

    # ---- wait-for graph -----------------------------------------------------------------------------------
    def wait_for_edges(self) -> dict[tuple[str, str], str]:
        edges: dict[tuple[str, str], str] = {}
        for f in self.funcs.values():
            for n in own_nodes(f.node):
                acquired = None
                anchor: ast.AST = n
                if isinstance(n, (ast.With, ast.AsyncWith)):
                    for item in n.items:
                        lid = self.lock_id(item.context_expr, f)
                        if lid is not None and lid[1] == "lock":
                            acquired = lid[0]
                            anchor = n
                            held = self.may_hold_outside(n, f)
                            for h in held:
                                if h != acquired:
                                    edges.setdefault((h, acquired), f"{f.module.relpath}:{item.context_expr.lineno} {f.short}: acquires {acquired} while holding {h}")
                elif isinstance(n, ast.Call) and isinstance(n.func, ast.Attribute) and n.func.attr == "acquire":
                    lid = self.lock_id(n.func.value, f)
                    if lid is not None and lid[1] == "semaphore":
                        acquired = f"permit({lid[0]})"
                        held = self.may_hold(n, f)
                        for h in held:
                            if h != acquired:
                                edges.setdefault((h, acquired), f"{f.module.relpath}:{n.lineno} {f.short}: blocking acquire of {acquired} while holding {h}")
        return edges

    def may_hold_outside(self, with_node: ast.AST, f: FuncInfo) -> set[str]:
        """Locks that may be held when the with statement itself starts acquiring."""
        return self.may_hold(with_node, f)


def _site_node(s: CallSite) -> ast.AST:
    if isinstance(s.node, ast.withitem):
        return s.node.context_expr
    if isinstance(s.node, ast.comprehension):
        return s.node.iter
    return s.node


def _anc(n: ast.AST, stop: ast.AST) -> T.Iterator[ast.AST]:
    p = parent(n)
    while p is not None and p is not stop:
        yield p
        p = parent(p)


def cycles(edges: T.Iterable[tuple[str, str]]) -> list[list[str]]:
    graph: dict[str, set[str]] = {}
    for a, b in edges:
        graph.setdefault(a, set()).add(b)
        graph.setdefault(b, set())
    out: list[list[str]] = []
    seen_cycles = set()

    def dfs(start: str, node: str, path: list[str]) -> None:
        for nxt in sorted(graph[node]):
            if nxt == start:
                key = frozenset(path)
                if key not in seen_cycles:
                    seen_cycles.add(key)
                    out.append(path + [start])
            elif nxt not in path and nxt > start and len(path) < 6:
                dfs(start, nxt, path + [nxt])

    for s in sorted(graph):
        dfs(s, s, [s])
    return out
