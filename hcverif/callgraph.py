"""E3: call graph.  Explicit calls plus the implicit ones the repo relies on: context-manager
protocol, (async) iteration of generator methods, property reads, bytes()/str() dunders."""
from __future__ import annotations

import ast
import typing as T

from .load import FUNC_KINDS, ClassInfo, FuncInfo, Program, own_nodes, parent
from .types import ANY, Callee, Types


class CallSite:
    __slots__ = ("owner", "node", "kind", "callees", "stmt")

    def __init__(self, owner: FuncInfo, node: ast.AST, kind: str, callees: list[Callee]):
        self.owner = owner
        self.node = node
        self.kind = kind  # call | enter | exit | iter | prop | dunder
        self.callees = callees

    @property
    def lineno(self) -> int:
        n = self.node
        if isinstance(n, ast.withitem):
            n = n.context_expr
        elif isinstance(n, ast.comprehension):
            n = n.iter
        return getattr(n, "lineno", 0)

    def repo_targets(self) -> list[FuncInfo]:
        return [c.func for c in self.callees if c.func is not None]

    def ext_targets(self) -> list[str]:
        return [c.ext for c in self.callees if c.ext is not None]

    def text(self) -> str:
        if self.kind == "call":
            return ast.unparse(self.node.func)  # type: ignore[attr-defined]
        return f"<{self.kind}> {ast.unparse(self.node)[:60]}"

    def __repr__(self) -> str:
        return f"<CallSite {self.owner.short}:{self.lineno} {self.kind} {self.text()}>"


class CallGraph:
    def __init__(self, prog: Program, types: Types):
        self.prog = prog
        self.types = types
        self.sites: dict[str, list[CallSite]] = {}
        self.by_node: dict[int, list[CallSite]] = {}
        self.callers: dict[str, list[CallSite]] = {}
        self.funcs: dict[str, FuncInfo] = {}
        for f in prog.all_functions():
            self.funcs[f.qual] = f
        for f in prog.all_functions():
            self._scan(f)
        for sites in self.sites.values():
            for s in sites:
                for tgt in s.repo_targets():
                    self.callers.setdefault(tgt.qual, []).append(s)

    def _add(self, owner: FuncInfo, node: ast.AST, kind: str, callees: list[Callee]) -> None:
        if not callees:
            return
        cs = CallSite(owner, node, kind, callees)
        self.sites.setdefault(owner.qual, []).append(cs)
        self.by_node.setdefault(id(node), []).append(cs)

    def _cm_methods(self, t: tuple, names: tuple[str, str]) -> tuple[list[Callee], list[Callee]]:
        ent: list[Callee] = []
        ext: list[Callee] = []
        if t[0] == "cls":
            c: ClassInfo = t[1]
            for nm, out in ((names[0], ent), (names[1], ext)):
                m = c.find_method(nm)
                if m is not None:
                    out.append(Callee(func=m, recv=t))
                else:
                    out.append(Callee(ext=f"{c.qual}.{nm}", recv=t))
        elif t[0] == "ext":
            ent.append(Callee(ext=f"{t[1]}.{names[0]}", recv=t))
            ext.append(Callee(ext=f"{t[1]}.{names[1]}", recv=t))
        elif t[0] == "list":
            # @contextmanager generator function result: the call itself is already an edge
            pass
        elif t[0] == "union":
            for x in t[1]:
                a, b = self._cm_methods(x, names)
                ent.extend(a)
                ext.extend(b)
        return ent, ext

    def _scan(self, f: FuncInfo) -> None:
        ty = self.types
        for n in own_nodes(f.node):
            if isinstance(n, ast.Call):
                self._add(f, n, "call", ty.resolve_call(n, f))
                # bytes(x) / str(x) / repr(x) / list(x) dunders on repo classes
                if isinstance(n.func, ast.Name) and n.func.id in ("bytes", "str", "repr") and n.args:
                    at = ty.expr_type(n.args[0], f)
                    if at[0] == "cls":
                        m = at[1].find_method(f"__{n.func.id}__")
                        if m is not None:
                            self._add(f, n, "dunder", [Callee(func=m, recv=at)])
                # logging formats its arguments (lazily, but in this thread, before the call returns): `logger.debug("%r", obj)`
                # runs obj.__repr__ / __str__; so does a formatted value in an f-string argument
                if isinstance(n.func, ast.Attribute) and n.func.attr in ("debug", "info", "warning", "error", "exception", "critical", "log") \
                        and isinstance(n.func.value, ast.Name) and "log" in n.func.value.id.lower():
                    for a in n.args[1:]:
                        at = ty.expr_type(a, f)
                        if at[0] == "cls":
                            for dn in ("__repr__", "__str__"):
                                m = at[1].find_method(dn)
                                if m is not None:
                                    self._add(f, a, "dunder", [Callee(func=m, recv=at)])
            elif isinstance(n, ast.FormattedValue):
                at = ty.expr_type(n.value, f)
                if at[0] == "cls":
                    for dn in ("__repr__", "__str__"):
                        m = at[1].find_method(dn)
                        if m is not None:
                            self._add(f, n, "dunder", [Callee(func=m, recv=at)])
            elif isinstance(n, (ast.With, ast.AsyncWith)):
                names = ("__aenter__", "__aexit__") if isinstance(n, ast.AsyncWith) else ("__enter__", "__exit__")
                for item in n.items:
                    t = ty.expr_type(item.context_expr, f)
                    ent, ext = self._cm_methods(t, names)
                    self._add(f, item, "enter", ent)
                    self._add(f, item, "exit", ext)
            elif isinstance(n, (ast.For, ast.AsyncFor, ast.comprehension)):
                is_async = isinstance(n, ast.AsyncFor) or (isinstance(n, ast.comprehension) and bool(n.is_async))
                it = n.iter
                t = ty.expr_type(it, f)
                # iterating a repo object: its __aiter__/__iter__ generator
                cands = [t] if t[0] != "union" else t[1]
                callees: list[Callee] = []
                for c in cands:
                    if c[0] == "cls":
                        for nm in (("__aiter__",) if is_async else ("__iter__",)):
                            callees.extend(ty._methods(c[1], nm))
                if callees:
                    self._add(f, n, "iter", callees)
                elif is_async or (t == ANY or t[0] == "list") and not isinstance(it, ast.Call):
                    # iteration over a caller supplied (async) iterable / an Any-typed stream object
                    self._add(f, n, "iter", self._iter_by_name(it, f, is_async))
            elif isinstance(n, ast.Attribute) and isinstance(n.ctx, ast.Load):
                p = parent(n)
                if isinstance(p, ast.Call) and p.func is n:
                    continue
                bt = ty.expr_type(n.value, f)
                if bt[0] == "cls":
                    m = bt[1].find_method(n.attr)
                    if m is not None and any(d == "property" for d in m.decorators):
                        self._add(f, n, "prop", [Callee(func=m, recv=bt)])

    def _iter_by_name(self, it: ast.expr, f: FuncInfo, is_async: bool) -> list[Callee]:
        """`async for part in self._stream` where the stream is typed AsyncIterable[bytes]:
        the candidates are every repo class defining __aiter__ (resp. __iter__) as a byte stream,
        plus the caller's own iterator."""
        nm = "__aiter__" if is_async else "__iter__"
        out: list[Callee] = []
        txt = ast.unparse(it)
        if "stream" not in txt and "content" not in txt:
            return out
        tree = "._async" if "._async" in f.module.name else ("._sync" if "._sync" in f.module.name else "")
        for c in self.prog.all_classes():
            if nm not in c.methods or not c.name.endswith("ByteStream"):
                continue
            shared = "._async" not in c.module.name and "._sync" not in c.module.name
            if "request" in txt:
                # a request body is the caller's iterator or the in-repo ByteStream container
                if c.name == "ByteStream":
                    out.append(Callee(func=c.methods[nm], how="name", recv=("cls", c)))
            elif shared or not tree or tree in c.module.name:
                out.append(Callee(func=c.methods[nm], how="name", recv=("cls", c)))
        out.append(Callee(ext="user.iterator", how="name"))
        return out

    # ---- queries ------------------------------------------------------------------------
    def sites_of(self, f: FuncInfo) -> list[CallSite]:
        return self.sites.get(f.qual, [])

    def sites_at(self, node: ast.AST) -> list[CallSite]:
        return self.by_node.get(id(node), [])

    def sites_in(self, node: ast.AST, owner: FuncInfo) -> list[CallSite]:
        """All call sites syntactically inside `node` (same function)."""
        ids = {id(n) for n in ast.walk(node)}
        return [s for s in self.sites_of(owner) if id(s.node) in ids]

    def callers_of(self, f: FuncInfo) -> list[CallSite]:
        return self.callers.get(f.qual, [])

    def reachable(self, roots: T.Iterable[FuncInfo], stop: T.Callable[[FuncInfo], bool] | None = None) -> dict[str, list[str]]:
        """Functions reachable from roots; value = one shortest call path (list of quals)."""
        seen: dict[str, list[str]] = {}
        todo: list[tuple[FuncInfo, list[str]]] = [(r, [r.qual]) for r in roots]
        while todo:
            f, path = todo.pop(0)
            if f.qual in seen:
                continue
            seen[f.qual] = path
            if stop is not None and stop(f):
                continue
            for s in self.sites_of(f):
                for t in s.repo_targets():
                    if t.qual not in seen:
                        todo.append((t, path + [t.qual]))
        return seen
