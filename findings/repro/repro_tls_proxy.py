"""KF12/KF13/KF14 (C10 TLS decision, SNI), KF15 (C11 target extension), KF9 (C05 stuck tunnel)"""
import os, sys
sys.path.insert(0, os.path.dirname(os.path.abspath(__file__)))
import httpcore, traceback, typing, ssl
from common import *
ctx = ssl.create_default_context()
OK = [b"HTTP/1.1 200 OK\r\nContent-Length: 2\r\n\r\nhi"]

print("=== I1: wss via SOCKS -> TLS?")
be=RecBackend([b"\x05\x00", b"\x05\x00\x00\x01\x7f\x00\x00\x01\x00\x50"]+OK)
with httpcore.SOCKSProxy(proxy_url="socks5://localhost:8080/", network_backend=be, ssl_context=ctx) as pool:
    try: r=pool.request("GET","wss://example.com/"); print("   status",r.status)
    except Exception as e: show(e)
    print("   ops:", be.streams[0].ops, be.connects)
print("=== I1b: https via SOCKS -> TLS?")
be=RecBackend([b"\x05\x00", b"\x05\x00\x00\x01\x7f\x00\x00\x01\x00\x50"]+OK)
with httpcore.SOCKSProxy(proxy_url="socks5://localhost:8080/", network_backend=be, ssl_context=ctx) as pool:
    try: r=pool.request("GET","https://example.com/"); print("   status",r.status)
    except Exception as e: show(e)
    print("   ops:", [o for o in be.streams[0].ops if o[0]=="start_tls"])

print("=== I2: ws via HTTP proxy -> tunnel + TLS?")
be=RecBackend([b"HTTP/1.1 200 OK\r\n\r\n"]+OK)
with httpcore.HTTPProxy(proxy_url="http://localhost:8080/", network_backend=be, ssl_context=ctx) as pool:
    try: r=pool.request("GET","ws://example.com/"); print("   status",r.status)
    except Exception as e: show(e)
    print("   written:", be.streams[0].written[:2], "tls:", be.streams[0].tls)

print("=== I3: sni_hostname via tunnel")
be=RecBackend([b"HTTP/1.1 200 OK\r\n\r\n"]+OK)
with httpcore.HTTPProxy(proxy_url="http://localhost:8080/", network_backend=be, ssl_context=ctx) as pool:
    r=pool.request("GET","https://example.com/", extensions={"sni_hostname":"sni.example"})
    print("   tls:", be.streams[0].tls)
be=RecBackend(OK)
with httpcore.ConnectionPool(network_backend=be, ssl_context=ctx) as pool:
    r=pool.request("GET","https://example.com/", extensions={"sni_hostname":"sni.example"})
    print("   direct tls:", be.streams[0].tls)

print("=== M: target extension through tunnel / forward proxy")
be=RecBackend([b"HTTP/1.1 200 OK\r\n\r\n"]+OK)
with httpcore.HTTPProxy(proxy_url="http://localhost:8080/", network_backend=be, ssl_context=ctx, proxy_auth=("u","p")) as pool:
    try:
        r=pool.request("OPTIONS","https://example.com/", extensions={"target":b"*"}); print("   status", r.status)
    except Exception as e: show(e)
    print("   written:", be.streams[0].written)
be=RecBackend(OK)
with httpcore.HTTPProxy(proxy_url="http://localhost:8080/", network_backend=be, ssl_context=ctx) as pool:
    try:
        r=pool.request("OPTIONS","http://example.com/", extensions={"target":b"*"}); print("   status", r.status)
    except Exception as e: show(e)
    print("   written:", be.streams[0].written)

print("=== G2: tunnel start_tls failure leaves stuck connection")
be=RecBackend([b"HTTP/1.1 200 OK\r\n\r\n"]+OK, tls_fail=httpcore.ConnectError("tls failed"))
with httpcore.HTTPProxy(proxy_url="http://localhost:8080/", network_backend=be, ssl_context=ctx, max_connections=1) as pool:
    try: pool.request("GET","https://example.com/")
    except Exception as e: show(e)
    print("   pool:", pool.connections, repr(pool))
    c = pool.connections[0]
    print("   closed/expired/idle/avail:", c.is_closed(), c.has_expired(), c.is_idle(), c.is_available())
    try: pool.request("GET","https://other.example/", extensions={"timeout":{"pool":0.05}})
    except Exception as e: show(e)

print("=== G3: direct TLS failure")
be=RecBackend(OK, tls_fail=httpcore.ConnectError("tls failed"))
with httpcore.ConnectionPool(network_backend=be, ssl_context=ctx, max_connections=1) as pool:
    try: pool.request("GET","https://example.com/")
    except Exception as e: show(e)
    print("   pool:", pool.connections, "closed", [s.closed for s in be.streams])
