"""KF32: HTTP/2 - a request is 'in flight' for the connection from the moment it passes the ACTIVE gate, but the IDLE
transition in `_response_closed` only looks at the open-stream table (`not self._events`), and a request registers its
stream there only AFTER the suspension points that follow the gate (`_init_lock`, the stream-slot semaphore - anyio's
acquire yields even when a permit is free).  If the only open stream closes in that window the connection is declared IDLE
(expiry armed) with a request pending on it; the pool may then close it as an expired / surplus idle connection and the
pending request - to a perfectly healthy server - fails."""
import anyio
import h2.config
import h2.connection
import h2.events
import httpcore


class Server(httpcore.AsyncNetworkStream):
    def __init__(self):
        self.conn = h2.connection.H2Connection(config=h2.config.H2Configuration(client_side=False))
        self.conn.initiate_connection()
        self.inbox = [self.conn.data_to_send()]
        self.readable = anyio.Event()
        self.closed = False
        self.pending = {}

    async def read(self, max_bytes, timeout=None):
        while not self.inbox:
            if self.closed:
                raise httpcore.ReadError("stream closed by the client")
            self.readable = anyio.Event()
            with anyio.move_on_after(0.05):
                await self.readable.wait()
        return self.inbox.pop(0)

    async def write(self, buffer, timeout=None):
        if self.closed:
            raise httpcore.WriteError("stream closed by the client")
        for ev in self.conn.receive_data(buffer):
            if isinstance(ev, h2.events.RequestReceived):
                path = dict(ev.headers)[b":path"]
                self.pending[path] = ev.stream_id
                if path != b"/slow":
                    self.answer(path)
        self.flush()

    def answer(self, path):
        sid = self.pending[path]
        self.conn.send_headers(sid, [(":status", "200")])
        self.conn.send_data(sid, b"answer to " + path, end_stream=True)
        self.flush()

    def flush(self):
        data = self.conn.data_to_send()
        if data:
            self.inbox.append(data)
            self.readable.set()

    async def aclose(self):
        self.closed = True
        self.readable.set()

    def get_extra_info(self, info):
        return None


class Backend(httpcore.AsyncNetworkBackend):
    def __init__(self):
        self.servers = []

    async def connect_tcp(self, host, port, timeout=None, local_address=None, socket_options=None):
        s = Server()
        self.servers.append(s)
        return s

    async def sleep(self, seconds):
        await anyio.sleep(seconds)


async def attempt(k: int):
    backend = Backend()
    # expiry 0: an idle connection is expired at once (a small value + a slow response, or a keep-alive limit, behave the same)
    pool = httpcore.AsyncConnectionPool(http1=False, http2=True, keepalive_expiry=0.0, max_connections=2, network_backend=backend)
    out = {}
    cm = pool.stream("GET", "http://example.com/first")
    first = await cm.__aenter__()          # stream 1 open: the connection is ACTIVE
    await first.aread()
    conn = pool.connections[0]

    async def slow():
        try:
            r = await pool.request("GET", "http://example.com/slow")
            out["slow"] = (r.status, r.content)
        except Exception as exc:  # noqa: BLE001
            out["slow"] = type(exc).__name__ + ": " + str(exc)[:90]

    async with anyio.create_task_group() as tg:
        tg.start_soon(slow)
        for _ in range(k):
            await anyio.sleep(0)               # /slow advances k scheduler ticks (k=2,3: past the gate, parked before registering)
        await cm.__aexit__(None, None, None)   # the only open stream is closed
        seen = repr(conn)
        with anyio.move_on_after(1):
            while not any(b"/slow" in sv.pending for sv in backend.servers) and "slow" not in out:
                await anyio.sleep(0.01)
        for sv in backend.servers:
            if b"/slow" in sv.pending and not sv.closed:
                sv.answer(b"/slow")
    await pool.aclose()
    return out.get("slow"), seen


async def main() -> int:
    bad = []
    for k in range(0, 8):
        got, seen = await attempt(k)
        if got != (200, b"answer to /slow"):
            bad.append((k, got, seen))
    if not bad:
        print("OK: the pending request completed on every schedule")
        return 0
    for k, got, seen in bad:
        print(f"FAIL [first response closed {k} ticks after /slow started]: request /slow to a healthy server ended with {got!r}; "
              f"after the close the connection it was pending on was {seen}")
    return 1


if __name__ == "__main__":
    raise SystemExit(anyio.run(main))
