"""KF32, sync tree, real threads, no instrumentation: the server allows ONE concurrent stream.  Thread B passes the ACTIVE
gate and blocks on the stream-slot semaphore.  Thread A closes its response: the slot is released, A's entry leaves the
open-stream table, the table is empty (B has not registered yet) -> the connection is declared IDLE, its keep-alive expiry
(0 here; any value shorter than B's exchange, or a keep-alive limit, does the same) elapses, and the pool closes it - under
B, whose request to a healthy server then fails."""
import queue
import threading
import time

import h2.config
import h2.connection
import h2.events
import h2.settings
import httpcore


class Server(httpcore.NetworkStream):
    def __init__(self):
        self.conn = h2.connection.H2Connection(config=h2.config.H2Configuration(client_side=False))
        self.conn.initiate_connection()
        self.conn.update_settings({h2.settings.SettingCodes.MAX_CONCURRENT_STREAMS: 1})
        self.lock = threading.Lock()
        self.inbox = queue.Queue()
        self.inbox.put(self.conn.data_to_send())
        self.closed = False
        self.slow = None

    def write(self, buffer, timeout=None):
        if self.closed:
            raise httpcore.WriteError("closed by the client")
        with self.lock:
            for ev in self.conn.receive_data(buffer):
                if isinstance(ev, h2.events.RequestReceived):
                    path = dict(ev.headers)[b":path"]
                    if path == b"/slow":
                        self.slow = ev.stream_id          # answered later by the test
                    else:
                        self.conn.send_headers(ev.stream_id, [(":status", "200")])
                        self.conn.send_data(ev.stream_id, b"answer to " + path, end_stream=True)
            data = self.conn.data_to_send()
        if data:
            self.inbox.put(data)

    def answer_slow(self):
        with self.lock:
            self.conn.send_headers(self.slow, [(":status", "200")])
            self.conn.send_data(self.slow, b"answer to /slow", end_stream=True)
            self.inbox.put(self.conn.data_to_send())

    def read(self, max_bytes, timeout=None):
        end = time.monotonic() + (timeout if timeout is not None else 3)
        while time.monotonic() < end:
            if self.closed:
                raise httpcore.ReadError("closed by the client")
            try:
                return self.inbox.get(timeout=0.02)
            except queue.Empty:
                pass
        raise httpcore.ReadTimeout("scripted server silent")

    def close(self):
        self.closed = True

    def get_extra_info(self, info):
        return None


class Backend(httpcore.NetworkBackend):
    def __init__(self):
        self.servers = []

    def connect_tcp(self, host, port, timeout=None, local_address=None, socket_options=None):
        self.servers.append(Server())
        return self.servers[-1]

    def sleep(self, seconds):
        time.sleep(seconds)


def main() -> int:
    backend = Backend()
    out = {}
    with httpcore.ConnectionPool(http1=False, http2=True, keepalive_expiry=0.0, max_connections=2, network_backend=backend) as pool:
        assert pool.request("GET", "http://example.com/warm").status == 200     # SETTINGS (1 stream) are known now
        cm = pool.stream("GET", "http://example.com/first")
        first = cm.__enter__()
        first.read()

        def slow():
            try:
                r = pool.request("GET", "http://example.com/slow", extensions={"timeout": {"read": 3}})
                out["slow"] = (r.status, r.content)
            except Exception as exc:  # noqa: BLE001
                out["slow"] = type(exc).__name__ + ": " + str(exc)[:90]

        t = threading.Thread(target=slow)
        t.start()
        time.sleep(0.2)                       # B is past the gate, blocked on the stream-slot semaphore
        cm.__exit__(None, None, None)         # A closes the only open stream
        deadline = time.monotonic() + 2
        while time.monotonic() < deadline and "slow" not in out:
            sv = backend.servers[0]
            if sv.slow is not None and not sv.closed:
                sv.answer_slow()
                break
            time.sleep(0.01)
        t.join(5)
    if out.get("slow") == (200, b"answer to /slow"):
        print("OK: the pending request completed")
        return 0
    print(f"FAIL: request /slow to a healthy server ended with {out.get('slow')!r} (connection closed by the pool: {backend.servers[0].closed})")
    return 1


if __name__ == "__main__":
    raise SystemExit(main())
