"""KF30 (candidate): HTTP/2 - `get_next_available_stream_id()` does not reserve the id; h2 only advances its counter in
`send_headers()`.  Between the two lies `async with Trace("send_request_headers", ...)`, whose __aenter__ awaits the user's
trace callback.  Two concurrent requests whose callback suspends there are given the SAME stream id: the second overwrites
the first one's event queue, one of them fails inside h2, its clean-up deletes the shared queue, and the other never sees its
response."""
import anyio
import httpcore
import h2.config
import h2.connection
import h2.events


class Server(httpcore.AsyncNetworkStream):
    def __init__(self):
        self.conn = h2.connection.H2Connection(config=h2.config.H2Configuration(client_side=False))
        self.conn.initiate_connection()
        self.inbox = [self.conn.data_to_send()]
        self.readable = anyio.Event()
        self.seen = []

    async def read(self, max_bytes, timeout=None):
        with anyio.fail_after(timeout if timeout is not None else 2):
            while not self.inbox:
                self.readable = anyio.Event()
                await self.readable.wait()
        return self.inbox.pop(0)

    async def write(self, buffer, timeout=None):
        for ev in self.conn.receive_data(buffer):
            if isinstance(ev, h2.events.RequestReceived):
                path = dict(ev.headers)[b":path"]
                self.seen.append((ev.stream_id, path))
                self.conn.send_headers(ev.stream_id, [(":status", "200"), ("x-path", path.decode())])
                self.conn.send_data(ev.stream_id, b"answer to " + path, end_stream=True)
        data = self.conn.data_to_send()
        if data:
            self.inbox.append(data)
            self.readable.set()

    async def aclose(self):
        pass

    def get_extra_info(self, info):
        return None


async def main() -> int:
    srv = Server()
    conn = httpcore.AsyncHTTP2Connection(origin=httpcore.Origin(b"https", b"example.com", 443), stream=srv)
    # warm up so that the server's SETTINGS (100 streams) are known and both requests run concurrently
    r = await conn.request("GET", "https://example.com/warm")
    assert r.status == 200

    async def trace(name, info):
        if name == "http2.send_request_headers.started":
            await anyio.sleep(0)          # a trace callback that suspends (any real async callback does)

    results = {}

    async def one(path):
        try:
            r = await conn.request("GET", "https://example.com" + path, extensions={"trace": trace, "timeout": {"read": 1.0}})
            results[path] = (r.status, r.content)
        except Exception as exc:  # noqa: BLE001
            results[path] = type(exc).__name__ + ": " + str(exc)[:80]

    async with anyio.create_task_group() as tg:
        tg.start_soon(one, "/a")
        tg.start_soon(one, "/b")
    ok = results.get("/a") == (200, b"answer to /a") and results.get("/b") == (200, b"answer to /b")
    if ok:
        print("OK: both concurrent requests got their own response")
        return 0
    print("FAIL: concurrent HTTP/2 requests with a suspending trace callback:")
    for k, v in sorted(results.items()):
        print(f"   {k}: {v}")
    print(f"   requests the server saw (stream id, path): {srv.seen}")
    return 1


if __name__ == "__main__":
    raise SystemExit(anyio.run(main))
