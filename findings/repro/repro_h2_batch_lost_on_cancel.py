"""KF27: HTTP/2 - the task that reads the socket parses a batch of frames for ALL streams and then
dispatches them one by one; the SETTINGS handler inside that dispatch loop contains cancellation points
(trace callback, semaphore.acquire()).  If the reading task is cancelled there, the not-yet-dispatched
rest of the batch - DATA frames of OTHER streams - is silently dropped (h2 has already consumed and
length-checked the bytes).  The sibling stream later gets END_STREAM and completes WITHOUT error with a
shorter body."""
import anyio, httpcore, h2.config, h2.connection, h2.events, h2.settings


class Server(httpcore.AsyncNetworkStream):
    """Scripted peer: a real h2 server state machine; the test pushes byte segments for the client to read."""
    def __init__(self):
        self.conn = h2.connection.H2Connection(config=h2.config.H2Configuration(client_side=False))
        self.conn.initiate_connection()
        self.inbox = []          # segments the client will read
        self.readable = anyio.Event()
        self.requests = {}

    def push(self):
        data = self.conn.data_to_send()
        if data:
            self.inbox.append(data)
            self.readable.set()

    async def read(self, max_bytes, timeout=None):
        while not self.inbox:
            self.readable = anyio.Event()
            await self.readable.wait()
        return self.inbox.pop(0)

    async def write(self, buffer, timeout=None):
        for ev in self.conn.receive_data(buffer):
            if isinstance(ev, h2.events.RequestReceived):
                self.requests[dict(ev.headers)[b":path"]] = ev.stream_id
        self.conn.data_to_send()  # discard acks; the script decides what is sent

    async def aclose(self):
        pass

    def get_extra_info(self, info):
        return None


async def main():
    srv = Server()
    srv.push()  # server preface / SETTINGS
    conn = httpcore.AsyncHTTP2Connection(origin=httpcore.Origin(b"https", b"example.com", 443), stream=srv)
    results = {}
    scope_a = anyio.CancelScope()
    armed = []

    async def trace_a(name, info):
        # cancel request A exactly when its task (the reader) handles the SETTINGS change
        if name == "http2.receive_remote_settings.started" and armed:
            scope_a.cancel()

    async def req_a():
        with scope_a:
            try:
                await conn.request("GET", "https://example.com/a", extensions={"trace": trace_a})
                results[b"/a"] = ("ok", None)
            except Exception as exc:  # noqa
                results[b"/a"] = ("exc", type(exc).__name__)
        if scope_a.cancelled_caught:
            results[b"/a"] = ("cancelled", None)

    start_body = anyio.Event()

    async def req_b():
        try:
            async with conn.stream("GET", "https://example.com/b") as r:
                results[b"/b-head"] = r.status
                await start_body.wait()          # B has its headers and is NOT reading while the batch arrives
                body = b"".join([c async for c in r.aiter_stream()])
            results[b"/b"] = ("ok", body)
        except Exception as exc:  # noqa
            results[b"/b"] = ("exc", type(exc).__name__ + ": " + str(exc))

    async with anyio.create_task_group() as tg:
        tg.start_soon(req_a)
        await anyio.sleep(0.05)
        srv.conn.update_settings({h2.settings.SettingCodes.MAX_CONCURRENT_STREAMS: 10})
        srv.push()
        await anyio.sleep(0.05)
        tg.start_soon(req_b)
        await anyio.sleep(0.05)
        sid_b = srv.requests[b"/b"]
        srv.conn.send_headers(sid_b, [(b":status", b"200"), (b"content-length", b"11")])
        srv.push()
        await anyio.sleep(0.1)
        assert results.get(b"/b-head") == 200
        # ONE network segment, read by A's task: a SETTINGS change followed by the first DATA of stream B
        armed.append(True)
        srv.conn.update_settings({h2.settings.SettingCodes.MAX_CONCURRENT_STREAMS: 5})
        srv.conn.send_data(sid_b, b"part1-")
        srv.push()
        await anyio.sleep(0.1)
        # later: the rest of B's body, then B starts reading
        srv.conn.send_data(sid_b, b"part2", end_stream=True)
        srv.push()
        start_body.set()
        await anyio.sleep(0.3)
        tg.cancel_scope.cancel()
    print(results)
    b = results.get(b"/b")
    assert b is not None and b[0] == "ok" and b[1] != b"part1-part2", results
    print(f"KF27 reproduced: request B (never cancelled) completed WITHOUT error with body {b[1]!r} instead of b'part1-part2'")

anyio.run(main)
