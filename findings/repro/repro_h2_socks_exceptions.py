"""KF3/KF4/KF5 (C15 h2 exceptions, :status), KF6/KF7/KF10 (SOCKS: raw socksio error, no timeouts, leaked stream)"""
import os, sys
sys.path.insert(0, os.path.dirname(os.path.abspath(__file__)))
from common import *
import hpack, hyperframe.frame as hf

enc = hpack.Encoder()
def headers_frame(sid, hdrs, flags=("END_HEADERS",)):
    return hf.HeadersFrame(stream_id=sid, data=hpack.Encoder().encode(hdrs), flags=list(flags)).serialize()

print("=== D: non-numeric :status over h2")
buf=[hf.SettingsFrame().serialize(), headers_frame(1,[(b":status",b"abc")], ("END_HEADERS","END_STREAM"))]
with httpcore.HTTP2Connection(origin=httpcore.Origin(b"https",b"example.com",443), stream=RecStream(buf)) as c:
    try: c.request("GET","https://example.com/")
    except Exception as e: show(e)

print("=== C1: malformed frame during response headers (request-level mapping)")
bad = b"\x00\x00\x05\x04\x00\x00\x00\x00\x00" + b"12345"   # SETTINGS with bad length 5
buf=[hf.SettingsFrame().serialize(), bad]
with httpcore.HTTP2Connection(origin=httpcore.Origin(b"https",b"example.com",443), stream=RecStream(buf)) as c:
    try: c.request("GET","https://example.com/")
    except Exception as e: show(e)

print("=== C2: malformed frame during body streaming")
buf=[hf.SettingsFrame().serialize(), headers_frame(1,[(b":status",b"200")]), bad]
with httpcore.HTTP2Connection(origin=httpcore.Origin(b"https",b"example.com",443), stream=RecStream(buf)) as c:
    try: c.request("GET","https://example.com/")
    except Exception as e: show(e)

print("=== C3: DATA on stream exceeding flow window / DATA before headers")
buf=[hf.SettingsFrame().serialize(), hf.DataFrame(stream_id=1,data=b"x").serialize()]
with httpcore.HTTP2Connection(origin=httpcore.Origin(b"https",b"example.com",443), stream=RecStream(buf)) as c:
    try: c.request("GET","https://example.com/")
    except Exception as e: show(e)

print("=== E: SOCKS malformed replies")
for name,replies in [("garbage auth reply",[b"\x04\x00"]),("short",[b"\x05"]),("empty",[b""]),("ok auth, garbage connect",[b"\x05\x00", b"\x05\x00\x00\x09zzzzzzzz"]),("ok auth, short connect",[b"\x05\x00", b"\x05\x00"])]:
    be=RecBackend(replies)
    with httpcore.SOCKSProxy(proxy_url="socks5://localhost:8080/", network_backend=be) as pool:
        print(name)
        try: pool.request("GET","https://example.com/")
        except Exception as e: show(e)
        print("   pool:", pool.connections, "stream closed:", [s.closed for s in be.streams], "ops:", be.streams[0].ops)
