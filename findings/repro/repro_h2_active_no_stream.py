"""KF23 (C05): cancellation between state gate and init lock leaves HTTP/2 connection ACTIVE with no stream"""
import os, sys
sys.path.insert(0, os.path.dirname(os.path.abspath(__file__)))
import anyio, httpcore, ssl
class S(httpcore.AsyncNetworkStream):
    def __init__(self): self.closed=False; self.tls=False
    async def read(self, max_bytes, timeout=None): await anyio.sleep(100)
    async def write(self, b, timeout=None): pass
    async def aclose(self): self.closed=True
    async def start_tls(self, ssl_context, server_hostname=None, timeout=None): self.tls=True; return self
    def get_extra_info(self, info):
        if info=="ssl_object" and self.tls:
            class O:
                def selected_alpn_protocol(s): return "h2"
            return O()
        return None
class BE(httpcore.AsyncNetworkBackend):
    def __init__(self): self.streams=[]
    async def connect_tcp(self, host, port, timeout=None, local_address=None, socket_options=None):
        await anyio.sleep(0); s=S(); self.streams.append(s); return s
    async def sleep(self, s): pass
async def main():
    be=BE()
    async with httpcore.AsyncConnectionPool(network_backend=be, http2=True, max_connections=1, ssl_context=ssl.create_default_context()) as pool:
        scope = anyio.CancelScope()
        async def req():
            with scope:
                await pool.request("GET","https://example.com/")
        async def poller():
            while True:
                await anyio.sleep(0)
                cs = pool.connections
                if cs and getattr(cs[0], "_connection", None) is not None:
                    scope.cancel(); return
        async with anyio.create_task_group() as tg:
            tg.start_soon(req); tg.start_soon(poller)
        print("after cancel:", pool.connections, repr(pool))
        for c in pool.connections:
            print("   closed/expired/idle/avail:", c.is_closed(), c.has_expired(), c.is_idle(), c.is_available(), "events:", c._connection._events, "init sent:", c._connection._sent_connection_init)
        try:
            await pool.request("GET","https://other.example/", extensions={"timeout":{"pool":0.05}})
        except Exception as e: print("other-origin request:", type(e).__name__)
for backend in ("asyncio","trio"):
    print("==", backend); anyio.run(main, backend=backend)
