"""KF26: two concurrent requests on one fresh HTTP/2 connection; the first request's connection-init
write fails, it closes the connection (h2 state machine -> CLOSED) and re-raises; the second request,
already past the ACTIVE gate and waiting on _init_lock, then runs initiate_connection() on the closed
state machine and fails with a raw h2.exceptions.ProtocolError (not a documented httpcore exception)."""
import anyio, httpcore, h2.exceptions


class FailingStream(httpcore.AsyncNetworkStream):
    def __init__(self):
        self.writes = 0
        self.gate = anyio.Event()

    async def write(self, buffer, timeout=None):
        self.writes += 1
        await self.gate.wait()          # let the second request queue up on _init_lock
        raise httpcore.WriteError("boom")

    async def read(self, max_bytes, timeout=None):
        await anyio.sleep(3600)

    async def aclose(self):
        pass

    def get_extra_info(self, info):
        return None


async def main():
    stream = FailingStream()
    conn = httpcore.AsyncHTTP2Connection(origin=httpcore.Origin(b"https", b"example.com", 443), stream=stream)
    results = {}

    async def one(name):
        try:
            await conn.request("GET", "https://example.com/")
            results[name] = "ok"
        except BaseException as exc:  # noqa
            results[name] = f"{type(exc).__module__}.{type(exc).__name__}: {exc}"

    async with anyio.create_task_group() as tg:
        tg.start_soon(one, "first")
        await anyio.sleep(0.05)
        tg.start_soon(one, "second")
        await anyio.sleep(0.05)
        stream.gate.set()
    for k, v in results.items():
        print(k, "->", v)
    assert results["second"].startswith("h2.exceptions."), results
    print("KF26 reproduced: raw h2 exception reaches the caller of the second request")

anyio.run(main)
