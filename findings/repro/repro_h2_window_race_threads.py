"""KF25 (C08, sync tree): check-then-act race on the shared HTTP/2 connection window.
`_send_stream_data` reads the window (`_wait_for_outgoing_flow`) and calls `send_data` with no lock
spanning the two, so a second thread uploading on the same connection can consume the window in
between.  The schedule is forced at an httpcore source line (the `send_data` line) with sys.settrace."""
import sys, threading
import httpcore, h2.connection, h2.config, h2.events


class Srv(httpcore.NetworkStream):
    """In-memory h2 server that never returns connection-level flow-control credit."""
    def __init__(self):
        self.h2 = h2.connection.H2Connection(h2.config.H2Configuration(client_side=False))
        self.h2.initiate_connection()
        self.out = bytearray(self.h2.data_to_send())
        self.cv = threading.Condition()

    def read(self, max_bytes, timeout=None):
        with self.cv:
            if not self.cv.wait_for(lambda: self.out, timeout=timeout):
                raise httpcore.ReadTimeout()
            data = bytes(self.out[:max_bytes]); del self.out[:max_bytes]
            return data

    def write(self, buffer, timeout=None):
        with self.cv:
            for e in self.h2.receive_data(buffer):
                if isinstance(e, h2.events.StreamEnded):
                    self.h2.send_headers(e.stream_id, [(":status", "200")], end_stream=True)
            self.out += self.h2.data_to_send()
            self.cv.notify_all()

    def close(self): pass
    def get_extra_info(self, info): return None


conn = httpcore.HTTP2Connection(origin=httpcore.Origin(b"https", b"example.com", 443), stream=Srv())
URL = "https://example.com/"
EXT = {"timeout": {"read": 3.0}}

# T0 (sequential): use up all but 16384 bytes of the 65535-byte connection window.
r = conn.request("POST", URL, content=b"x" * (65535 - 16384), extensions=EXT)
print("warm-up upload:", r.status, "connection window left:", conn._h2_state.outbound_flow_control_window)

import httpcore._sync.http2 as mod
src_lines = open(mod.__file__).read().splitlines()
SEND_LINE = next(i + 1 for i, l in enumerate(src_lines) if "self._h2_state.send_data(stream_id, chunk)" in l)
t1_at_send, t2_done = threading.Event(), threading.Event()
results = {}

def tracer(frame, event, arg):
    if frame.f_code.co_filename == mod.__file__ and frame.f_code.co_name == "_send_stream_data":
        def line_tracer(frame, event, arg):
            if event == "line" and frame.f_lineno == SEND_LINE and not t1_at_send.is_set():
                t1_at_send.set()          # T1 has read the window (16384) and is about to send
                t2_done.wait(5)           # ... pre-empted here while T2 runs
            return line_tracer
        return line_tracer
    return tracer

def t1():
    sys.settrace(tracer)
    try:
        r = conn.request("POST", URL, content=b"a" * 16384, extensions=EXT); results["T1"] = r.status
    except Exception as e:
        results["T1"] = f"{type(e).__module__}.{type(e).__name__}: {e}"

def t2():
    t1_at_send.wait(5)
    try:
        r = conn.request("POST", URL, content=b"b" * 16384, extensions=EXT); results["T2"] = r.status
    except Exception as e:
        results["T2"] = f"{type(e).__module__}.{type(e).__name__}: {e}"
    t2_done.set()

a, b = threading.Thread(target=t1, daemon=True), threading.Thread(target=t2, daemon=True)
a.start(); b.start(); a.join(10); b.join(10)
print("forced schedule at http2.py line", SEND_LINE, "->", results)
