"""Shared recording mocks for the reproduction scripts (not part of any check).

Run any script with: /venv/bin/python /verif/findings/repro/<script>.py
"""
import httpcore, traceback, typing, ssl
import hpack, hyperframe.frame as hf

class RecStream(httpcore.NetworkStream):
    def __init__(self, buf, http2=False): self.buf=list(buf); self.written=[]; self.closed=False; self.tls=[]; self.http2=http2; self.ops=[]
    def read(self, max_bytes, timeout=None):
        self.ops.append(("read",timeout))
        x = self.buf.pop(0) if self.buf else b""
        if isinstance(x, BaseException): raise x
        return x
    def write(self, b, timeout=None): self.ops.append(("write",timeout)); self.written.append(b)
    def close(self): self.closed=True
    def start_tls(self, ssl_context, server_hostname=None, timeout=None):
        self.ops.append(("start_tls",server_hostname,timeout)); self.tls.append(server_hostname)
        if getattr(self,"tls_fail",None): raise self.tls_fail
        return self
    def get_extra_info(self, info):
        if info=="ssl_object" and self.http2 and self.tls:
            class O:
                def selected_alpn_protocol(s): return "h2"
            return O()
        return None
class RecBackend(httpcore.NetworkBackend):
    def __init__(self, buf, http2=False, tls_fail=None): self.buf=buf; self.streams=[]; self.connects=[]; self.http2=http2; self.tls_fail=tls_fail
    def connect_tcp(self, host, port, timeout=None, local_address=None, socket_options=None):
        s=RecStream(self.buf, self.http2); s.tls_fail=self.tls_fail; self.streams.append(s); self.connects.append((host,port,timeout)); return s
    def sleep(self, s): pass


def show(e):
    print("   ->", type(e).__module__ + "." + type(e).__name__, str(e)[:90])
