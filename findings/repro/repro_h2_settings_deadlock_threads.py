"""KF16 on the sync tree (C08): the same SETTINGS-decrease wedge with real threads.
Three threads share one HTTP2Connection; the in-memory h2 server lowers
MAX_CONCURRENT_STREAMS below the number of streams in flight and then answers all three."""
import threading, time
import httpcore, h2.connection, h2.config, h2.events, h2.settings


class Srv(httpcore.NetworkStream):
    def __init__(self, lower_to):
        self.h2 = h2.connection.H2Connection(h2.config.H2Configuration(client_side=False))
        self.h2.initiate_connection()
        self.out = bytearray(self.h2.data_to_send())
        self.cv = threading.Condition()
        self.open, self.lower_to, self.lowered = [], lower_to, False

    def read(self, max_bytes, timeout=None):
        with self.cv:
            if not self.cv.wait_for(lambda: self.out, timeout=timeout):
                raise httpcore.ReadTimeout()
            data = bytes(self.out[:max_bytes]); del self.out[:max_bytes]
            return data

    def write(self, buffer, timeout=None):
        with self.cv:
            for e in self.h2.receive_data(buffer):
                if isinstance(e, h2.events.RequestReceived):
                    self.open.append(e.stream_id)
            if len(self.open) == 3 and not self.lowered:
                self.lowered = True
                self.h2.update_settings({h2.settings.SettingCodes.MAX_CONCURRENT_STREAMS: self.lower_to})
                for sid in self.open:
                    self.h2.send_headers(sid, [(":status", "200")])
                    self.h2.send_data(sid, b"body%d" % sid, end_stream=True)
            self.out += self.h2.data_to_send()
            self.cv.notify_all()

    def close(self): pass
    def get_extra_info(self, info): return None


def run(lower_to):
    conn = httpcore.HTTP2Connection(origin=httpcore.Origin(b"https", b"example.com", 443), stream=Srv(lower_to))
    results = {}
    def one(i):
        try:
            r = conn.request("GET", f"https://example.com/{i}", extensions={"timeout": {"read": 2.0}})
            results[i] = (r.status, r.content)
        except Exception as e:
            results[i] = repr(e)
    ts = [threading.Thread(target=one, args=(i,), daemon=True) for i in range(3)]
    for t in ts: t.start()
    for t in ts: t.join(timeout=5)
    print("lower_to", lower_to, "alive threads after 5s:", sum(t.is_alive() for t in ts), "results:", results)

for n in (100, 1):
    run(n)
