"""KF8/KF9 witnesses (C05.R3): an already-cancelled caller hits its first checkpoint at the
connection's establishment lock.  Direct connections are cleaned up (the handler covers the
lock wait - which is also what KF21 objects to); SOCKS and tunnel connections stay CONNECTING."""
import anyio, httpcore


class BE(httpcore.AsyncNetworkBackend):
    async def connect_tcp(self, *a, **k):
        raise AssertionError("never reached")

    async def sleep(self, s):
        pass


async def main(kind):
    if kind == "socks":
        pool = httpcore.AsyncSOCKSProxy(proxy_url="socks5://localhost:1080/", network_backend=BE(), max_connections=1)
    elif kind == "tunnel":
        pool = httpcore.AsyncHTTPProxy(proxy_url="http://localhost:8080/", network_backend=BE(), max_connections=1)
    else:
        pool = httpcore.AsyncConnectionPool(network_backend=BE(), max_connections=1)
    async with pool:
        with anyio.CancelScope() as scope:
            scope.cancel()
            await pool.request("GET", "https://example.com/")
        print(kind, "->", pool.connections)


for k in ("direct", "socks", "tunnel"):
    anyio.run(main, k)
