"""KF33: HTTP/2 - a request whose stream lies above the last-stream-id of a GOAWAY is transparently re-sent by the pool
(`ConnectionNotAvailable`).  The re-send passes the SAME Request object to the next connection, so a body given as an
iterator has already been consumed - wholly or in part - by the first attempt: the second attempt is a complete,
well-formed request with a shorter (here: empty) body, and the caller gets the server's answer to THAT request.
C03 requires "exactly the caller's body bytes ... for every transmission attempt ... and on transparent re-sends".

Sync API, scripted in-memory h2 servers (one per connection)."""
import h2.config
import h2.connection
import h2.events
import httpcore


class Server(httpcore.NetworkStream):
    def __init__(self, index, log):
        self.index, self.log = index, log
        self.conn = h2.connection.H2Connection(config=h2.config.H2Configuration(client_side=False))
        self.conn.initiate_connection()
        self.outbox = [self.conn.data_to_send()]
        self.bodies = {}
        self.paths = {}

    def write(self, buffer, timeout=None):
        for ev in self.conn.receive_data(buffer):
            if isinstance(ev, h2.events.RequestReceived):
                self.paths[ev.stream_id] = dict(ev.headers)[b":path"]
                self.bodies[ev.stream_id] = b""
            elif isinstance(ev, h2.events.DataReceived):
                self.bodies[ev.stream_id] += ev.data
                self.conn.acknowledge_received_data(ev.flow_controlled_length, ev.stream_id)
            elif isinstance(ev, h2.events.StreamEnded):
                sid = ev.stream_id
                path = self.paths[sid]
                self.log.append((self.index, sid, path, self.bodies[sid]))
                if self.index == 0 and path == b"/upload":
                    # graceful shutdown: this server will not process the upload (stream 3); everything up to stream 1 was handled
                    self.conn.close_connection(last_stream_id=1)
                else:
                    self.conn.send_headers(sid, [(":status", "200")])
                    self.conn.send_data(sid, b"received %d bytes" % len(self.bodies[sid]), end_stream=True)
        data = self.conn.data_to_send()
        if data:
            self.outbox.append(data)

    def read(self, max_bytes, timeout=None):
        if self.outbox:
            return self.outbox.pop(0)
        raise httpcore.ReadTimeout("scripted server has nothing more to say")

    def close(self):
        pass

    def get_extra_info(self, info):
        return None


class Backend(httpcore.NetworkBackend):
    def __init__(self):
        self.log = []
        self.n = 0

    def connect_tcp(self, host, port, timeout=None, local_address=None, socket_options=None):
        s = Server(self.n, self.log)
        self.n += 1
        return s


def main() -> int:
    backend = Backend()
    body = [b"alpha-", b"beta-", b"gamma"]
    with httpcore.ConnectionPool(http1=False, http2=True, network_backend=backend) as pool:
        assert pool.request("GET", "http://example.com/warm").status == 200           # stream 1 on connection 0
        try:
            r = pool.request("POST", "http://example.com/upload", content=iter(body))  # stream 3 on connection 0 -> GOAWAY(last=1) -> re-sent
            outcome = (r.status, r.content)
        except Exception as exc:  # noqa: BLE001
            outcome = type(exc).__name__
    uploads = [(c, sid, b) for c, sid, path, b in backend.log if path == b"/upload"]
    want = b"".join(body)
    bad = [u for u in uploads if u[2] != want]
    if not bad:
        print(f"OK: every transmission attempt carried the caller's body ({uploads}); caller saw {outcome}")
        return 0
    print(f"FAIL: the caller's body is {want!r}; transmission attempts (connection, stream, body received): {uploads}; the caller saw {outcome}")
    return 1


if __name__ == "__main__":
    raise SystemExit(main())
