"""KF16 (C12/C08/C07): SETTINGS lowers MAX_CONCURRENT_STREAMS below in-flight streams -> all streams wedge"""
import os, sys
sys.path.insert(0, os.path.dirname(os.path.abspath(__file__)))
import anyio, httpcore, h2.connection, h2.config, h2.events, h2.settings

class Srv(httpcore.AsyncNetworkStream):
    """In-memory h2 server: answers each request; after 3 streams open sends SETTINGS max_concurrent=1 first."""
    def __init__(self, lower_to):
        self.h2 = h2.connection.H2Connection(h2.config.H2Configuration(client_side=False))
        self.h2.initiate_connection()
        self.out = bytearray(self.h2.data_to_send())
        self.open = []
        self.lower_to = lower_to
        self.lowered = False
        self.ev = anyio.Event()
        self.ev.set()
        self.closed = False
    async def read(self, max_bytes, timeout=None):
        with anyio.fail_after(timeout):
            while not self.out:
                self.ev = anyio.Event()
                await self.ev.wait()
            await anyio.sleep(0)
            data = bytes(self.out[:max_bytes]); del self.out[:max_bytes]
            return data
    async def write(self, buffer, timeout=None):
        await anyio.sleep(0)
        for e in self.h2.receive_data(buffer):
            if isinstance(e, h2.events.RequestReceived):
                self.open.append(e.stream_id)
        if len(self.open) == 3 and not self.lowered:
            self.lowered = True
            self.h2.update_settings({h2.settings.SettingCodes.MAX_CONCURRENT_STREAMS: self.lower_to})
            for sid in self.open:
                self.h2.send_headers(sid, [(":status","200")])
                self.h2.send_data(sid, b"body%d" % sid, end_stream=True)
        self.out += self.h2.data_to_send()
        self.ev.set()
    async def aclose(self): self.closed = True
    def get_extra_info(self, info): return None

async def main(lower_to):
    srv = Srv(lower_to)
    results = {}
    async with httpcore.AsyncHTTP2Connection(origin=httpcore.Origin(b"https", b"example.com", 443), stream=srv) as conn:
        async def one(i):
            r = await conn.request("GET", f"https://example.com/{i}", extensions={"timeout": {"read": 2.0}})
            results[i] = (r.status, r.content)
        try:
            with anyio.fail_after(5):
                async with anyio.create_task_group() as tg:
                    for i in range(3):
                        tg.start_soon(one, i)
            print("lower_to", lower_to, "completed", results)
        except BaseException as e:
            print("lower_to", lower_to, "FAILED", type(e).__name__, getattr(e, "exceptions", e), "results so far", results)
        print(conn, "max_streams", conn._max_streams)

for n in (100, 2, 1):
    anyio.run(main, n)
