"""KF28: HTTP/2 - a server may lower SETTINGS_INITIAL_WINDOW_SIZE while an upload is in progress; RFC 9113 §6.9.2 says the
stream window then becomes NEGATIVE and the sender must wait until WINDOW_UPDATE frames make it positive again.  The wait
loop in `_wait_for_outgoing_flow` tests `flow == 0`, so a negative window leaves the loop at once, `min(len(data), flow)` is
negative, `data[:negative]` is a chunk far larger than the window, and h2 rejects the send: the upload fails with
LocalProtocolError instead of resuming when the window reopens.  Sync twin: the same loop."""
import httpcore, h2.config, h2.connection, h2.events, h2.settings

BODY = bytes(range(256)) * 600   # 153,600 bytes  (> 2 x 65,535)


class Server(httpcore.NetworkStream):
    """A real h2 server state machine behind the NetworkStream interface.  Script: after the first 65,535 body bytes have
    arrived, shrink INITIAL_WINDOW_SIZE to 1,000 (window becomes negative), then re-open it with WINDOW_UPDATEs."""
    def __init__(self):
        self.conn = h2.connection.H2Connection(config=h2.config.H2Configuration(client_side=False))
        self.conn.initiate_connection()
        self.out = [self.conn.data_to_send()]
        self.body = {}
        self.shrunk = False
        self.done = False

    def write(self, buffer, timeout=None):
        for ev in self.conn.receive_data(buffer):
            if isinstance(ev, h2.events.DataReceived):
                self.body.setdefault(ev.stream_id, bytearray()).extend(ev.data)
                got = len(self.body[ev.stream_id])
                if not self.shrunk and got >= 65535:
                    self.shrunk = True
                    # window: 65,535 sent against a new initial size of 1,000  ->  -64,535
                    self.conn.update_settings({h2.settings.SettingCodes.INITIAL_WINDOW_SIZE: 1000})
                    # ... then give the credit back in two steps (stream and connection)
                    self.conn.increment_flow_control_window(70000, stream_id=ev.stream_id)
                    self.conn.increment_flow_control_window(200000)
                    self.conn.increment_flow_control_window(200000, stream_id=ev.stream_id)
                elif self.shrunk:
                    self.conn.acknowledge_received_data(ev.flow_controlled_length, ev.stream_id)
            elif isinstance(ev, h2.events.StreamEnded):
                self.conn.send_headers(ev.stream_id, [(":status", "200"), ("content-length", "0")], end_stream=True)
                self.done = True
        data = self.conn.data_to_send()
        if data:
            # deliver the SETTINGS change first and the window updates in a LATER read, as a network would
            self.out.extend([data[i:i + 24] for i in range(0, len(data), 24)])

    def read(self, max_bytes, timeout=None):
        if not self.out:
            raise httpcore.ReadTimeout("scripted server has nothing more to say")
        return self.out.pop(0)

    def close(self):
        pass

    def get_extra_info(self, info):
        return None


def main():
    srv = Server()
    conn = httpcore.HTTP2Connection(origin=httpcore.Origin(b"https", b"example.com", 443), stream=srv)
    try:
        r = conn.request("POST", "https://example.com/upload", content=BODY)
        received = bytes(srv.body.get(1, b""))
        if r.status == 200 and received == BODY:
            print("OK: body delivered completely after the window reopened")
            return 0
        print(f"FAIL: status {r.status}, server received {len(received)} of {len(BODY)} bytes")
        return 1
    except Exception as exc:  # noqa: BLE001
        received = bytes(srv.body.get(1, b""))
        print(f"FAIL: upload aborted with {type(exc).__name__}: {exc}  (server had received {len(received)} of {len(BODY)} bytes; window was legally negative)")
        return 1


if __name__ == "__main__":
    raise SystemExit(main())
