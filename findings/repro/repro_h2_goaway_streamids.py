"""KF20 (C15 ConnectionNotAvailable from body read), KF17 (C05 stream-id exhaustion wedges connection)"""
import os, sys
sys.path.insert(0, os.path.dirname(os.path.abspath(__file__)))
import httpcore, hpack, hyperframe.frame as hf
from common import *
def headers_frame(sid, hdrs, flags=("END_HEADERS",)):
    return hf.HeadersFrame(stream_id=sid, data=hpack.Encoder().encode(hdrs), flags=list(flags)).serialize()
print("=== KF20: GOAWAY(last=1) after HEADERS(3) during body read")
buf=[hf.SettingsFrame().serialize(),
     headers_frame(1,[(b":status",b"200")],("END_HEADERS","END_STREAM")),
     headers_frame(3,[(b":status",b"200")]),
     hf.GoAwayFrame(stream_id=0,last_stream_id=1,error_code=0).serialize()]
be=RecBackend(buf, http2=True)
import ssl
with httpcore.ConnectionPool(network_backend=be, http2=True, ssl_context=ssl.create_default_context()) as pool:
    r=pool.request("GET","https://example.com/1"); print("   first", r.status)
    try:
        with pool.stream("GET","https://example.com/2") as r2:
            print("   second status", r2.status)
            r2.read()
    except Exception as e: show(e)
    print("  ", pool.connections)

print("=== KF17: stream id exhaustion")
be=RecBackend([hf.SettingsFrame().serialize(), headers_frame(1,[(b":status",b"200")],("END_HEADERS","END_STREAM"))], http2=True)
with httpcore.ConnectionPool(network_backend=be, http2=True, ssl_context=ssl.create_default_context(), max_connections=1) as pool:
    r=pool.request("GET","https://example.com/1"); print("   first", r.status, pool.connections)
    c=pool.connections[0]._connection
    c._h2_state.highest_outbound_stream_id = 2**31-1   # simulate 2**30 earlier requests
    be.buf[:] = [b"HTTP/1.1 200 OK\r\nContent-Length: 0\r\n\r\n"]
    try:
        r=pool.request("GET","https://example.com/2", extensions={"timeout":{"pool":0.05}}); print("   second", r.status)
    except Exception as e: show(e)
    print("  ", pool.connections, repr(pool))
    for x in pool.connections: print("   closed/expired/idle/avail:", x.is_closed(), x.has_expired(), x.is_idle(), x.is_available())

print("=== KF24: HTTP/2 Request object without Host header via pool.handle_request -> bare IndexError")
be = RecBackend([hf.SettingsFrame().serialize()], http2=True)
with httpcore.ConnectionPool(network_backend=be, http2=True, ssl_context=ssl.create_default_context()) as pool:
    try: pool.handle_request(httpcore.Request("GET", "https://example.com/"))
    except Exception as e: show(e)
print("=== same request over HTTP/1.1 (for contrast: documented class)")
be = RecBackend([b"HTTP/1.1 200 OK\r\nContent-Length: 0\r\n\r\n"])
with httpcore.ConnectionPool(network_backend=be) as pool:
    try: pool.handle_request(httpcore.Request("GET", "http://example.com/"))
    except Exception as e: show(e)
