"""KF31: sync HTTP/2 - the per-stream event table `_events` is read by the thread that holds the read lock
(`if event.stream_id in self._events: self._events[event.stream_id].append(event)`) and mutated WITHOUT any lock by the
owner of each stream (`self._events[stream_id] = []` at allocation, `del self._events[stream_id]` in `_response_closed`).
A context switch between the membership test and the subscript, with the other thread closing its response in between,
raises KeyError in the READER - a thread that is serving a different, healthy stream.

Real threads.  The only instrumentation is a dict subclass that forces the schedule: its __contains__ waits (for the
watched key) until the other thread has finished its close, then returns the answer it had already computed."""
import queue
import threading

import h2.config
import h2.connection
import h2.events
import httpcore


class Server(httpcore.NetworkStream):
    def __init__(self):
        self.conn = h2.connection.H2Connection(config=h2.config.H2Configuration(client_side=False))
        self.conn.initiate_connection()
        self.lock = threading.Lock()
        self.inbox = queue.Queue()
        self.inbox.put(self.conn.data_to_send())
        self.ids = {}

    def write(self, buffer, timeout=None):
        with self.lock:
            for ev in self.conn.receive_data(buffer):
                if isinstance(ev, h2.events.RequestReceived):
                    path = dict(ev.headers)[b":path"]
                    self.ids[path] = ev.stream_id
                    if path == b"/b":
                        # headers now, body later
                        self.conn.send_headers(ev.stream_id, [(":status", "200")])
                    elif path == b"/a":
                        # first more data for /b (whose owner is not reading), then the answer to /a
                        self.conn.send_data(self.ids[b"/b"], b"late data for b")
                        self.conn.send_headers(ev.stream_id, [(":status", "200")])
                        self.conn.send_data(ev.stream_id, b"answer to /a", end_stream=True)
                    else:
                        self.conn.send_headers(ev.stream_id, [(":status", "200")])
                        self.conn.send_data(ev.stream_id, b"warm", end_stream=True)
            data = self.conn.data_to_send()
        if data:
            self.inbox.put(data)

    def read(self, max_bytes, timeout=None):
        try:
            return self.inbox.get(timeout=timeout if timeout is not None else 3)
        except queue.Empty:
            raise httpcore.ReadTimeout("scripted server silent")

    def close(self):
        pass

    def get_extra_info(self, info):
        return None


class Schedule(dict):
    """A dict that forces one interleaving: after the membership test for `watch` has been evaluated, let the other thread
    run its close before this thread continues."""
    watch = None
    checked = threading.Event()
    deleted = threading.Event()

    def __contains__(self, k):
        r = dict.__contains__(self, k)
        if r and k == Schedule.watch and not Schedule.checked.is_set():
            Schedule.checked.set()          # "the reader has just evaluated `stream_id in self._events`"
            Schedule.deleted.wait(3)        # context switch: the owner of that stream closes its response now
        return r


def main() -> int:
    srv = Server()
    conn = httpcore.HTTP2Connection(origin=httpcore.Origin(b"https", b"example.com", 443), stream=srv)
    assert conn.request("GET", "https://example.com/warm").status == 200
    sched = Schedule(conn._events)
    conn._events = sched
    results = {}

    def thread_b():
        try:
            with conn.stream("GET", "https://example.com/b") as r:
                results["b-status"] = r.status
                Schedule.watch = srv.ids[b"/b"]
                got_headers.set()
                Schedule.checked.wait(3)    # ... until the reader is between its test and its subscript
            # leaving the block closed the response: `del self._events[stream_id]`
            results["b"] = "closed early"
        except Exception as exc:  # noqa: BLE001
            results["b"] = type(exc).__name__ + ": " + str(exc)
        finally:
            Schedule.deleted.set()

    def thread_a():
        got_headers.wait(3)
        try:
            r = conn.request("GET", "https://example.com/a", extensions={"timeout": {"read": 3}})
            results["a"] = (r.status, r.content)
        except Exception as exc:  # noqa: BLE001
            results["a"] = type(exc).__name__ + ": " + str(exc)

    got_headers = threading.Event()
    tb = threading.Thread(target=thread_b)
    ta = threading.Thread(target=thread_a)
    tb.start(); ta.start(); ta.join(10); tb.join(10)
    if results.get("a") == (200, b"answer to /a"):
        print("OK: the healthy stream /a completed although /b was closed while its frame was being dispatched")
        return 0
    print(f"FAIL: request /a (a healthy stream, its thread was the socket reader) ended with {results.get('a')!r}; /b: {results.get('b')!r}")
    return 1


if __name__ == "__main__":
    raise SystemExit(main())
