"""KF21 (C04/C06): cancelled waiter on _request_lock marks a connecting connection failed"""
import os, sys
sys.path.insert(0, os.path.dirname(os.path.abspath(__file__)))
import anyio, httpcore, ssl, h2.connection, h2.config, h2.events
class S(httpcore.AsyncNetworkStream):
    def __init__(self): self.closed=False; self.tls=False
    async def read(self, max_bytes, timeout=None): await anyio.sleep(100)
    async def write(self, b, timeout=None): pass
    async def aclose(self): self.closed=True
    async def start_tls(self, ssl_context, server_hostname=None, timeout=None):
        await anyio.sleep(0.2); self.tls=True; return self
    def get_extra_info(self, info):
        if info=="ssl_object" and self.tls:
            class O:
                def selected_alpn_protocol(s): return "h2"
            return O()
        return None
class BE(httpcore.AsyncNetworkBackend):
    def __init__(self): self.streams=[]
    async def connect_tcp(self, host, port, timeout=None, local_address=None, socket_options=None):
        s=S(); self.streams.append(s); return s
    async def sleep(self, s): pass
async def main():
    be=BE()
    async with httpcore.AsyncConnectionPool(network_backend=be, http2=True, max_connections=1, ssl_context=ssl.create_default_context()) as pool:
        async def a():
            with anyio.move_on_after(1.0):
                await pool.request("GET","https://example.com/a")
        async def b():
            await anyio.sleep(0.05)
            with anyio.move_on_after(0.05):     # cancelled while waiting for _request_lock
                await pool.request("GET","https://example.com/b")
            print("after B cancelled: pool =", pool.connections, "streams opened:", len(be.streams))
            await anyio.sleep(0.3)
            print("A connected meanwhile: pool =", pool.connections, "streams open:", [not s.closed for s in be.streams])
            # a third request: pool thinks it has room -> opens a 2nd connection although max_connections=1
            with anyio.move_on_after(0.4):
                await pool.request("GET","https://example.com/c")
            print("after C: streams opened:", len(be.streams), "open now:", sum(not s.closed for s in be.streams), "pool =", pool.connections)
        async with anyio.create_task_group() as tg:
            tg.start_soon(a); tg.start_soon(b)
        print("end: pool =", pool.connections, "open:", [not s.closed for s in be.streams])
    print("after pool close: open:", [not s.closed for s in be.streams])
anyio.run(main)
