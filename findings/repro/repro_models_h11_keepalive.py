"""KF18/KF19 (C19 URL params, IPv6 Host), KF2 (C15 raw h11.LocalProtocolError), KF1 (C09 surplus-idle count)"""
import os, sys
sys.path.insert(0, os.path.dirname(os.path.abspath(__file__)))
import httpcore, h11, traceback, typing, ssl

print("=== J: C19 URL parsing")
u = httpcore.URL("http://example.com/a;b/c;d?x=1#frag")
print("target", u.target)
u = httpcore.URL("http://[::1]:8080/p")
print("host", u.host, "bytes", bytes(u))
try:
    print("roundtrip", httpcore.URL(bytes(u)) == u, httpcore.URL(bytes(u)))
except Exception as e:
    print("roundtrip exc", repr(e))
from httpcore._models import include_request_headers
print(include_request_headers([], url=u, content=None))
u = httpcore.URL("http://[::1]/p")
print(include_request_headers([], url=u, content=None))
u = httpcore.URL("http://user:pw@Example.COM:80/p?")
print(u, bytes(u), u.origin)

print("=== B: C15 h11 LocalProtocolError on body > content-length")
class RecStream(httpcore.NetworkStream):
    def __init__(self, buf): self.buf=list(buf); self.written=[]; self.closed=False; self.tls=[]
    def read(self, max_bytes, timeout=None):
        return self.buf.pop(0) if self.buf else b""
    def write(self, b, timeout=None): self.written.append(b)
    def close(self): self.closed=True
    def start_tls(self, ssl_context, server_hostname=None, timeout=None):
        self.tls.append(server_hostname); return self
    def get_extra_info(self, info): return None
class RecBackend(httpcore.NetworkBackend):
    def __init__(self, buf): self.buf=buf; self.streams=[]; self.connects=[]
    def connect_tcp(self, host, port, timeout=None, local_address=None, socket_options=None):
        s=RecStream(self.buf); self.streams.append(s); self.connects.append((host,port)); return s
    def sleep(self, s): pass

resp=[b"HTTP/1.1 200 OK\r\nContent-Length: 2\r\n\r\nhi"]
be=RecBackend(resp)
with httpcore.ConnectionPool(network_backend=be) as pool:
    try:
        pool.request("POST","http://example.com/",headers={"Content-Length":"2"},content=b"toolong")
    except Exception as e:
        print(type(e).__module__, type(e).__name__, e)
    print(pool.connections, [s.closed for s in be.streams])

print("=== A: C09 keepalive bug")
be=RecBackend(resp)
with httpcore.ConnectionPool(network_backend=be, max_connections=10, max_keepalive_connections=2) as pool:
    # three active responses to distinct origins, + one idle
    cms=[pool.stream("GET",f"http://h{i}.example/") for i in range(3)]
    rs=[cm.__enter__() for cm in cms]
    pool.request("GET","http://idle.example/")
    print("after idle req:", pool.connections)
    # any pool operation triggers cleanup pass
    r=pool.request("GET","http://h0.example/x") if False else None
    for cm in cms: cm.__exit__(None,None,None)
    print("end:", pool.connections)
