"""KF29: pool - a queued request is abandoned (cancelled, or its pool timeout fires) in `wait_for_connection`, but before its
task gets to run the clean-up handler another request's close runs the assignment pass, finds the abandoned request still
in the queue and gives it a FRESHLY CREATED connection.  The handler then removes the request from the queue - and nothing
ever looks at the new connection again: it was never started, so it is not idle, not available (HTTP/1.1), never expires
and is not closed.  It stays in the pool as 'CONNECTING' forever; with max_connections=1 every later request times out.

The script steps the closing task k scheduler ticks before abandoning the waiter and reports the first k that loses the slot
(asyncio ready-queue order is FIFO, so this is deterministic)."""
import asyncio

import anyio
import httpcore

RESP = [b"HTTP/1.1 200 OK\r\n", b"Content-Length: 2\r\n", b"\r\n", b"ok"]


async def attempt(k: int, how: str):
    backend = httpcore.AsyncMockBackend(RESP * 8)
    pool = httpcore.AsyncConnectionPool(max_connections=1, network_backend=backend)
    outcome = {}
    # A holds the only slot (response open)
    cm = pool.stream("GET", "http://a.example/")
    resp_a = await cm.__aenter__()

    async def req_b():
        try:
            ext = {"timeout": {"pool": 0.05}} if how == "pool-timeout" else {}
            r = await pool.request("GET", "http://b.example/", extensions=ext)
            outcome["B"] = r.status
        except BaseException as exc:  # noqa: BLE001
            outcome["B"] = type(exc).__name__
            if isinstance(exc, asyncio.CancelledError):
                raise

    tb = asyncio.ensure_future(req_b())
    for _ in range(5):
        await asyncio.sleep(0)          # B is queued and waits for a connection
    if how == "pool-timeout":
        # let the deadline pass while the loop is busy, then close A and let the scheduler order things
        import time
        await asyncio.sleep(0.03)
        ta = asyncio.ensure_future(cm.__aexit__(None, None, None))
        for _ in range(k):
            await asyncio.sleep(0)
        time.sleep(0.05)
    else:
        ta = asyncio.ensure_future(cm.__aexit__(None, None, None))   # A's response is being closed ...
        for _ in range(k):
            await asyncio.sleep(0)                                   # ... k ticks into the close ...
        tb.cancel()                                                  # ... the waiter is abandoned
    await asyncio.gather(ta, tb, return_exceptions=True)
    stuck = [c for c in pool.connections if not (c.is_idle() or c.is_closed() or c.is_available() or c.has_expired())]
    probe = None
    if stuck:
        try:
            r = await pool.request("GET", "http://c.example/", extensions={"timeout": {"pool": 0.2}})
            probe = r.status
        except Exception as exc:  # noqa: BLE001
            probe = type(exc).__name__
    info = (outcome.get("B"), [repr(c) for c in pool.connections], probe)
    await pool.aclose()
    return bool(stuck), info


def main() -> int:
    bad = []
    for how in ("cancel", "pool-timeout"):
        for k in range(0, 12):
            stuck, info = asyncio.run(attempt(k, how))
            if stuck:
                bad.append((how, k, info))
                break
    if not bad:
        print("OK: no schedule left an unusable connection in the pool")
        return 0
    for how, k, (b, conns, probe) in bad:
        print(f"FAIL [{how}, closing task stepped {k} ticks]: waiter ended with {b}; pool now holds {conns}; a later request with a 0.2 s pool timeout -> {probe}")
    return 1


if __name__ == "__main__":
    raise SystemExit(main())
