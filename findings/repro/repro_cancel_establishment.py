"""KF8/KF10 (SOCKS cancel/failure), KF11 (direct TLS cancel leak), KF9 (tunnel TLS cancel)"""
import os, sys
sys.path.insert(0, os.path.dirname(os.path.abspath(__file__)))
import anyio, httpcore, ssl
class Blk(httpcore.AsyncNetworkStream):
    def __init__(self): self.closed=False
    async def read(self, max_bytes, timeout=None): await anyio.sleep(100)
    async def write(self, b, timeout=None): pass
    async def aclose(self): self.closed=True
    async def start_tls(self, ssl_context, server_hostname=None, timeout=None): await anyio.sleep(100)
    def get_extra_info(self, info): return None
class BE(httpcore.AsyncNetworkBackend):
    def __init__(self): self.streams=[]
    async def connect_tcp(self, host, port, timeout=None, local_address=None, socket_options=None):
        s=Blk(); self.streams.append(s); return s
    async def sleep(self, s): pass
async def main():
    print("== SOCKS cancelled during negotiation")
    be=BE()
    async with httpcore.AsyncSOCKSProxy(proxy_url="socks5://localhost:1080/", network_backend=be, max_connections=1) as pool:
        with anyio.move_on_after(0.05):
            await pool.request("GET","http://example.com/")
        print("  ", pool.connections, repr(pool), "stream closed:", [s.closed for s in be.streams])
        try:
            await pool.request("GET","http://other.example/", extensions={"timeout":{"pool":0.05}})
        except Exception as e: print("   next request:", type(e).__name__)
    print("   after pool close, stream closed:", [s.closed for s in be.streams])
    print("== direct cancelled during start_tls")
    be=BE()
    async with httpcore.AsyncConnectionPool(network_backend=be, max_connections=1, ssl_context=ssl.create_default_context()) as pool:
        with anyio.move_on_after(0.05):
            await pool.request("GET","https://example.com/")
        print("  ", pool.connections, repr(pool), "stream closed:", [s.closed for s in be.streams])
    print("   after pool close, stream closed:", [s.closed for s in be.streams])
    print("== tunnel cancelled during start_tls")
    class T(Blk):
        def __init__(s): super().__init__(); s.buf=[b"HTTP/1.1 200 OK\r\n\r\n"]
        async def read(s, m, timeout=None):
            if s.buf: return s.buf.pop(0)
            await anyio.sleep(100)
    class BE2(BE):
        async def connect_tcp(self, *a, **k):
            s=T(); self.streams.append(s); return s
    be=BE2()
    async with httpcore.AsyncHTTPProxy(proxy_url="http://localhost:8080/", network_backend=be, max_connections=1, ssl_context=ssl.create_default_context()) as pool:
        with anyio.move_on_after(0.05):
            await pool.request("GET","https://example.com/")
        print("  ", pool.connections, repr(pool), "stream closed:", [s.closed for s in be.streams])
        try:
            await pool.request("GET","https://other.example/", extensions={"timeout":{"pool":0.05}})
        except Exception as e: print("   next request:", type(e).__name__)
    print("   after pool close, stream closed:", [s.closed for s in be.streams])
anyio.run(main)
