"""KF22 (C05): cancellation between establishment and first use leaves HTTP/1.1 connection NEW forever"""
import os, sys
sys.path.insert(0, os.path.dirname(os.path.abspath(__file__)))
import anyio, httpcore
class S(httpcore.AsyncNetworkStream):
    def __init__(self): self.closed=False
    async def read(self, max_bytes, timeout=None): await anyio.sleep(100)
    async def write(self, b, timeout=None): pass
    async def aclose(self): self.closed=True
    def get_extra_info(self, info): return None
class BE(httpcore.AsyncNetworkBackend):
    def __init__(self): self.streams=[]; self.scope=None
    async def connect_tcp(self, host, port, timeout=None, local_address=None, socket_options=None):
        await anyio.sleep(0)
        s=S(); self.streams.append(s)
        if self.scope: self.scope.cancel()      # cancellation requested after connect completed, before next checkpoint
        return s
    async def sleep(self, s): pass
async def main():
    be=BE()
    async with httpcore.AsyncConnectionPool(network_backend=be, max_connections=1) as pool:
        with anyio.CancelScope() as scope:
            be.scope=scope
            await pool.request("GET","http://example.com/")
        be.scope=None
        print("after cancel:", pool.connections, repr(pool), "stream closed:", [s.closed for s in be.streams])
        for c in pool.connections: print("   closed/expired/idle/avail:", c.is_closed(), c.has_expired(), c.is_idle(), c.is_available())
        try:
            await pool.request("GET","http://other.example/", extensions={"timeout":{"pool":0.05}})
        except Exception as e: print("next request:", type(e).__name__)
for backend in ("asyncio","trio"):
    print("==", backend); anyio.run(main, backend=backend)
