#!/venv/bin/python
"""Ad-hoc mutation probe: tools/trymut.py <Cxx[,Cyy]> <relpath under httpcore/_async or other> <old> <new> [--count N]
Copies /repo to a scratch dir, applies the textual replacement (to the async file and, via the
repo's own unasync table, to the sync twin), runs the named checks against the copy, removes it."""
import os, re, shutil, subprocess, sys, tempfile
props, rel, old, new = sys.argv[1:5]
tmp = tempfile.mkdtemp(prefix="hcmut.")
try:
    for d in ("httpcore", "scripts", "docs"):
        shutil.copytree(os.path.join("/repo", d), os.path.join(tmp, d), ignore=shutil.ignore_patterns("__pycache__"))
    p = os.path.join(tmp, rel)
    s = open(p).read()
    if old not in s:
        print("OLD TEXT NOT FOUND"); sys.exit(3)
    s2 = s.replace(old, new, 1)
    open(p, "w").write(s2)
    if "/_async/" in rel:
        subprocess.run(["/venv/bin/python", "scripts/unasync.py"], cwd=tmp, capture_output=True)
    r = subprocess.run(["/venv/bin/python", "-c", "import ast,sys;ast.parse(open(sys.argv[1]).read())", p])
    env = dict(os.environ, HCVERIF_OUT=os.path.join(tmp, "_out"))
    for prop in props.split(","):
        r = subprocess.run(["/verif/check", prop, "--repo", tmp], capture_output=True, text=True, env=env)
        lines = [l for l in r.stdout.splitlines() if not l.startswith("   anchors") and "condarc" not in l]
        print(f"--- {prop} exit={r.returncode}")
        print("\n".join(l[:260] for l in lines[:14]))
finally:
    shutil.rmtree(tmp, ignore_errors=True)
