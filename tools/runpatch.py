#!/venv/bin/python
"""Run checks against /repo + a patch, in a scratch copy (never touches /repo).
usage: tools/runpatch.py <patch.diff> [C01,C05,...|all] [-v]
Prints one line per check: exit code and the rules that reported NEW violations."""
import os, re, shutil, subprocess, sys, tempfile
from concurrent.futures import ThreadPoolExecutor
patch = os.path.abspath(sys.argv[1])
props = sys.argv[2] if len(sys.argv) > 2 and not sys.argv[2].startswith("-") else "all"
verbose = "-v" in sys.argv
ids = [f"C{i:02d}" for i in range(1, 21)] if props == "all" else props.split(",")
tmp = tempfile.mkdtemp(prefix="hcpatch.")
try:
    for d in ("httpcore", "scripts", "docs"):
        shutil.copytree(os.path.join("/repo", d), os.path.join(tmp, d), ignore=shutil.ignore_patterns("__pycache__"))
    r = subprocess.run(["patch", "-p1", "-s", "-i", patch], cwd=tmp, capture_output=True, text=True)
    if r.returncode != 0:
        print("PATCH FAILED", r.stdout, r.stderr); sys.exit(3)
    def run(pid):
        env = dict(os.environ, HCVERIF_OUT=os.path.join(tmp, "_out_" + pid))
        r = subprocess.run(["/verif/check", pid, "--repo", tmp], capture_output=True, text=True, env=env)
        rules = sorted(set(re.findall(r"^   (C\d+\.R\d+) at", r.stdout, re.M)))
        return pid, r.returncode, rules, r.stdout
    with ThreadPoolExecutor(8) as ex:
        res = list(ex.map(run, ids))
    fired = [p for p, rc, _, _ in res if rc == 1]
    for pid, rc, rules, out in res:
        if rc != 0 or verbose:
            print(f"{pid} exit={rc} {' '.join(rules)}")
            if rc == 2:
                print("   " + "\n   ".join(l for l in out.splitlines() if "ANALYSIS-ERROR" in l)[:400])
            if verbose or rc == 1:
                for l in out.splitlines():
                    if re.match(r"^   C\d+\.R\d+ at", l):
                        print("     " + l.strip()[:300])
    print("FIRED:", ",".join(fired) or "none")
finally:
    shutil.rmtree(tmp, ignore_errors=True)
