#!/opt/veriftools/pyvenv/bin/python
"""Validates MANIFEST.json and every evidence file against the harness schemas."""
import json, sys, os, glob
import jsonschema
ok = True
m = json.load(open('/verif/MANIFEST.json'))
try:
    jsonschema.validate(m, json.load(open('/root/.vp/MANIFEST.schema.json')))
    print('MANIFEST ok:', len(m['checks']), 'checks')
except Exception as e:
    ok = False; print('MANIFEST INVALID', e)
sch = json.load(open('/root/.vp/EVIDENCE.schema.json'))
for c in m['checks']:
    p = c['evidence_file']
    if not os.path.isfile(p):
        ok = False; print('missing evidence', p); continue
    try:
        ev = json.load(open(p)); jsonschema.validate(ev, sch)
        assert ev['level'] == c['level_claimed']['category'], (ev['level'], c['level_claimed']['category'])
        if ev['level'] == 'proof': assert ev['coverage']['obligations'] == ev['coverage']['discharged']
    except Exception as e:
        ok = False; print('EVIDENCE INVALID', p, str(e)[:300])
ids = {c['property_id'] for c in m['checks']} | {n['property_id'] for n in m.get('not_applicable', [])}
want = {json.loads(l)['id'] for l in open('/verif/properties.jsonl')}
if ids != want:
    ok = False; print('property coverage mismatch', sorted(want - ids), sorted(ids - want))
print('OK' if ok else 'FAILED'); sys.exit(0 if ok else 1)
