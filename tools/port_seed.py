#!/venv/bin/python
"""Port a stored seeded change whose patch no longer applies to /repo HEAD:  tools/port_seed.py <seed-id> <script.py>
<script.py> edits httpcore/_async/... in the current directory (a fresh worktree); the twin is regenerated with unasync.
The old patch is kept as patch.orig.diff; the ported change is re-confirmed exactly like a new one (demo passes on HEAD,
fails with the patch, suite green) before patch.diff is replaced."""
import json, os, shutil, subprocess, sys, tempfile
sid, script = sys.argv[1], os.path.abspath(sys.argv[2])
out = f"/verif/seeded/{sid}"
PY = "/venv/bin/python"
tmp = tempfile.mkdtemp(prefix="hcport.")
try:
    r = tmp + "/r"
    subprocess.run(["git", "-C", "/repo", "worktree", "add", "-q", "--detach", r, "HEAD"], check=True)
    shutil.copy(f"{out}/demo.py", r + "/demo.py")
    env = dict(os.environ, PYTHONPATH=r, PYTHONDONTWRITEBYTECODE="1")
    def demo():
        p = subprocess.run([PY, "demo.py"], cwd=r, capture_output=True, text=True, env=env, timeout=300)
        return p.returncode
    clean = demo()
    subprocess.run([PY, script], cwd=r, check=True)
    subprocess.run([PY, "scripts/unasync.py"], cwd=r, capture_output=True)
    diff = subprocess.run(["git", "diff", "--", "httpcore"], cwd=r, capture_output=True, text=True).stdout
    mut = demo()
    t = subprocess.run([PY, "-m", "pytest", "-q", "-p", "no:cacheprovider", "--timeout=900", "-x"], cwd=r, capture_output=True, text=True, env=env)
    suite = t.stdout.strip().splitlines()[-1]
    head = subprocess.run(["git", "-C", "/repo", "rev-parse", "--short", "HEAD"], capture_output=True, text=True).stdout.strip()
    subprocess.run(["git", "-C", "/repo", "worktree", "remove", "--force", r])
finally:
    shutil.rmtree(tmp, ignore_errors=True)
ok = clean == 0 and mut != 0 and "passed" in suite and " failed" not in suite and diff.strip()
print(f"{sid}: clean_rc={clean} mut_rc={mut} suite='{suite}' ok={bool(ok)}")
if ok:
    if not os.path.exists(f"{out}/patch.orig.diff"):
        shutil.copy(f"{out}/patch.diff", f"{out}/patch.orig.diff")
    open(f"{out}/patch.diff", "w").write(diff)
    m = json.load(open(f"{out}/meta.json"))
    m["ported"] = f"patch.diff re-created against /repo {head} after a fix: commit changed the same lines (original in patch.orig.diff); the same edit, re-confirmed: demo passes on HEAD, fails with the patch, suite '{suite}'"
    json.dump(m, open(f"{out}/meta.json", "w"), indent=1)
