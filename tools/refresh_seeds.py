#!/venv/bin/python
"""Re-run all 20 checks against every stored seeded change and refresh `checks_fired` / `check_report` in its meta.json
(keeps `first_run_checks_fired` = what fired when the change was first received, before any strengthening)."""
import glob, json, re, subprocess, sys
from concurrent.futures import ThreadPoolExecutor

only = sys.argv[1:]


def one(d):
    meta = json.load(open(d + "/meta.json"))
    rp = subprocess.run(["/verif/tools/runpatch.py", d + "/patch.diff"], capture_output=True, text=True).stdout
    fired = re.search(r"FIRED: (.*)", rp).group(1)
    now = [] if fired == "none" else fired.split(",")
    if meta["seed_id"].endswith(("-c", "-d", "-e")):
        meta.setdefault("first_run_checks_fired", meta.get("checks_fired", []))
    meta["checks_fired"] = now
    meta["check_report"] = [l for l in rp.splitlines() if l.startswith(("C", "     "))][:12]
    meta["caught_by_target_property_check"] = meta["property"] in now
    json.dump(meta, open(d + "/meta.json", "w"), indent=1)
    return meta["seed_id"], meta.get("first_run_checks_fired", ["?"]), now


dirs = sorted(d for d in glob.glob("/verif/seeded/C*") if not only or any(o in d for o in only))
with ThreadPoolExecutor(4) as ex:
    for sid, first, now in ex.map(one, dirs):
        print(f"{sid}: first={','.join(first) or 'none'} now={','.join(now) or 'none'}")
