#!/venv/bin/python
"""Store and evaluate one independently produced BEHAVIOUR-PRESERVING refactor:  tools/neutral_seed.py <id> <worktree>
 1. patch = git diff -- httpcore in the worktree; full suite with the patch must be green
 2. every check is run on /repo and on /repo + patch (scratch copy): exit code and the set of violation keys must be equal
 3. writes /verif/neutral_seeded/<id>/{patch.diff, meta.json}; prints every difference (a false alarm / lost anchor to triage)"""
import json, os, re, shutil, subprocess, sys, tempfile
from concurrent.futures import ThreadPoolExecutor
sys.path.insert(0, "/verif")
from selftest.harness import run_check

nid, wt = sys.argv[1:3]
only_eval = "--eval-only" in sys.argv
out = f"/verif/neutral_seeded/{nid}"
os.makedirs(out, exist_ok=True)
PY = "/venv/bin/python"
if not only_eval:
    diff = subprocess.run(["git", "diff", "--", "httpcore"], cwd=wt, capture_output=True, text=True).stdout
    if not diff.strip():
        print("EMPTY DIFF"); sys.exit(3)
    open(f"{out}/patch.diff", "w").write(diff)
    tmp = tempfile.mkdtemp(prefix="hcneu.")
    try:
        r = tmp + "/r"
        subprocess.run(["git", "-C", "/repo", "worktree", "add", "-q", "--detach", r, "HEAD"], check=True)
        subprocess.run(["git", "apply", f"{out}/patch.diff"], cwd=r, check=True)
        env = dict(os.environ, PYTHONPATH=r, PYTHONDONTWRITEBYTECODE="1")
        t = subprocess.run([PY, "-m", "pytest", "-q", "-p", "no:cacheprovider", "--timeout=900"], cwd=r, capture_output=True, text=True, env=env)
        suite = t.stdout.strip().splitlines()[-1] if t.stdout.strip() else "?"
        un = subprocess.run([PY, "scripts/unasync.py", "--check"], cwd=r, capture_output=True, text=True).returncode
        subprocess.run(["git", "-C", "/repo", "worktree", "remove", "--force", r])
    finally:
        shutil.rmtree(tmp, ignore_errors=True)
    stat = subprocess.run(["git", "diff", "--stat", "--", "httpcore"], cwd=wt, capture_output=True, text=True).stdout.strip().splitlines()[-1]
else:
    m0 = json.load(open(f"{out}/meta.json")); suite, un, stat = m0["test_suite_with_patch"], m0["unasync_check"], m0["diffstat"]
tmp = tempfile.mkdtemp(prefix="hcneu.")
try:
    for d in ("httpcore", "scripts", "docs"):
        shutil.copytree(os.path.join("/repo", d), os.path.join(tmp, d), ignore=shutil.ignore_patterns("__pycache__"))
    p = subprocess.run(["patch", "-p1", "-s", "-i", f"{out}/patch.diff"], cwd=tmp, capture_output=True, text=True)
    if p.returncode != 0:
        print("PATCH FAILED", p.stdout, p.stderr); sys.exit(3)
    ids = [f"C{i:02d}" for i in range(1, 21)]
    def both(pid):
        a = run_check(pid, "/repo"); b = run_check(pid, tmp)
        return pid, a, b
    with ThreadPoolExecutor(8) as ex:
        res = list(ex.map(both, ids))
finally:
    shutil.rmtree(tmp, ignore_errors=True)
alarms = {}
for pid, (rc0, k0, _, _), (rc1, k1, _, o1) in res:
    if rc0 != rc1 or k0 != k1:
        alarms[pid] = {"exit": [rc0, rc1], "new_keys": sorted(k1 - k0), "lost_keys": sorted(k0 - k1), "errors": [l for l in o1.splitlines() if "ANALYSIS-ERROR" in l][:2],
                       "reports": [l.strip()[:300] for l in o1.splitlines() if re.match(r"^   C\d+\.R\d+ at", l) and any(k.split("|", 1)[0] in l for k in (k1 - k0))][:6]}
meta = {"id": nid, "kind": "behaviour-preserving refactor produced by a fresh sub-agent (prompt: seeded/_prompts/NEUTRAL.tmpl)", "diffstat": stat,
        "files": sorted(set(re.findall(r"^\+\+\+ b/(.*)$", open(f"{out}/patch.diff").read(), re.M))), "test_suite_with_patch": suite, "unasync_check": un,
        "checks_silent": sorted(set(ids) - set(alarms)), "alarms": alarms}
json.dump(meta, open(f"{out}/meta.json", "w"), indent=1)
print(f"{nid}: suite='{suite}' unasync--check={un} {stat}")
print(f"   silent: {len(ids) - len(alarms)}/20")
for pid, a in alarms.items():
    print(f"   ALARM {pid} exit {a['exit'][0]}->{a['exit'][1]} new={a['new_keys'][:4]} lost={a['lost_keys'][:3]} {a['errors']}")
    for l in a["reports"][:4]:
        print("        " + l)
