#!/venv/bin/python
"""Store and evaluate one REPAIRED FIX (the flaw of a round-9 seeded change removed, the fix for the reported issue kept):
   tools/fix_twin.py <id> <worktree>          store patch + evaluate
   tools/fix_twin.py --all                    re-evaluate every stored twin
A repaired fix changes behaviour on purpose, so - unlike a neutral refactor - violation keys may DISAPPEAR (a known finding that the
fix cures).  What counts as an alarm: a NEW violation key, or exit 2, on any of the 20 checks."""
import json, os, re, shutil, subprocess, sys, tempfile
from concurrent.futures import ThreadPoolExecutor
sys.path.insert(0, "/verif")
from selftest.harness import run_check

PY = "/venv/bin/python"
ROOT = "/verif/fix_twins"
checks = os.environ.get("HC_CHECKS", "").split(",") if os.environ.get("HC_CHECKS") else [f"C{i:02d}" for i in range(1, 21)]


def evaluate(tid: str, base: dict) -> dict:
    out = f"{ROOT}/{tid}"
    tmp = tempfile.mkdtemp(prefix="hcfix.")
    try:
        for d in ("httpcore", "scripts", "docs"):
            shutil.copytree(os.path.join("/repo", d), os.path.join(tmp, d), ignore=shutil.ignore_patterns("__pycache__"))
        p = subprocess.run(["patch", "-p1", "-s", "-i", f"{out}/patch.diff"], cwd=tmp, capture_output=True, text=True)
        if p.returncode != 0:
            return {"error": "patch failed " + p.stdout[:200]}
        with ThreadPoolExecutor(16) as ex:
            res = dict(zip(checks, ex.map(lambda c: run_check(c, tmp), checks)))
    finally:
        shutil.rmtree(tmp, ignore_errors=True)
    alarms, cured = {}, {}
    for c in checks:
        rc0, k0 = base[c][0], base[c][1]
        rc1, k1, _, o1 = res[c]
        new, lost = sorted(k1 - k0), sorted(k0 - k1)
        if new or rc1 == 2:
            alarms[c] = {"exit": [rc0, rc1], "new_keys": new, "errors": [l for l in o1.splitlines() if "ANALYSIS-ERROR" in l][:2],
                         "reports": [l.strip()[:300] for l in o1.splitlines() if re.match(r"^   C\d+\.R\d+ at", l) and any(k.split("|", 1)[0] in l for k in new)][:6]}
        if lost:
            cured[c] = lost
    return {"alarms": alarms, "keys_gone": cured}


def main() -> None:
    os.makedirs(ROOT, exist_ok=True)
    if sys.argv[1] == "--all":
        ids = sorted(d for d in os.listdir(ROOT) if os.path.isfile(f"{ROOT}/{d}/patch.diff"))
    else:
        tid, wt = sys.argv[1:3]
        out = f"{ROOT}/{tid}"
        os.makedirs(out, exist_ok=True)
        diff = subprocess.run(["git", "diff", "--", "httpcore"], cwd=wt, capture_output=True, text=True).stdout
        open(f"{out}/patch.diff", "w").write(diff)
        env = dict(os.environ, PYTHONPATH=wt, PYTHONDONTWRITEBYTECODE="1")
        demo = subprocess.run([PY, "demo.py"], cwd=wt, capture_output=True, text=True, env=env, timeout=600).returncode if os.path.exists(wt + "/demo.py") else None
        t = subprocess.run([PY, "-m", "pytest", "-q", "-p", "no:cacheprovider", "--timeout=900"], cwd=wt, capture_output=True, text=True, env=env)
        suite = t.stdout.strip().splitlines()[-1] if t.stdout.strip() else "?"
        un = subprocess.run([PY, "scripts/unasync.py", "--check"], cwd=wt, capture_output=True, text=True).returncode
        json.dump({"id": tid, "kind": "repaired fix: the flaw of the round-9 seeded change removed by a fresh sub-agent (prompt: seeded/_prompts/TWIN_fix.tmpl), the fix for the reported issue kept",
                   "seed": f"C{tid[1:3]}-i", "demo_of_the_flaw_exit": demo, "test_suite_with_patch": suite, "unasync_check": un}, open(f"{out}/meta.json", "w"), indent=1)
        ids = [tid]
    with ThreadPoolExecutor(16) as ex:
        base = dict(zip(checks, ex.map(lambda c: run_check(c, "/repo"), checks)))
    tot = 0
    for tid in ids:
        m = json.load(open(f"{ROOT}/{tid}/meta.json"))
        m.update(evaluate(tid, base))
        json.dump(m, open(f"{ROOT}/{tid}/meta.json", "w"), indent=1)
        a = m.get("alarms", {})
        tot += len(a)
        print(f"{tid}: demo={m.get('demo_of_the_flaw_exit')} suite='{m.get('test_suite_with_patch')}' unasync={m.get('unasync_check')} silent {20 - len(a)}/20 " +
              " ".join(f"{c}[{','.join(sorted({k.split('|')[0].split('.')[1] for k in v['new_keys']})) or 'exit2'}]" for c, v in a.items()) +
              ("   keys gone: " + ", ".join(sorted({k.split('|')[0] for ks in m.get('keys_gone', {}).values() for k in ks})) if m.get("keys_gone") else ""))
    print(f"TOTAL alarms: {tot} over {len(ids)} repaired fixes x 20 checks")


main()
