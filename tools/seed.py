#!/venv/bin/python
"""Confirm and store one sub-agent mutant:  tools/seed.py <seed-id> <property> <worktree> ["needs text"]
 1. patch = git diff -- httpcore in the worktree; demo = demo_*.py
 2. in a fresh scratch copy of /repo: demo must PASS; with the patch: demo must FAIL and the full suite must PASS
 3. runs all 20 checks against the patched copy, records which fire
 4. writes /verif/seeded/<seed-id>/{patch.diff, demo.py, meta.json}"""
import glob, json, os, re, shutil, subprocess, sys, tempfile
sid, prop, wt = sys.argv[1:4]
needs = sys.argv[4] if len(sys.argv) > 4 else ""
PY = "/venv/bin/python"
out = f"/verif/seeded/{sid}"
os.makedirs(out, exist_ok=True)
diff = subprocess.run(["git", "diff", "--", "httpcore"], cwd=wt, capture_output=True, text=True).stdout
if not diff.strip():
    print("EMPTY DIFF"); sys.exit(3)
open(f"{out}/patch.diff", "w").write(diff)
demos = sorted(glob.glob(f"{wt}/demo_*.py"))
if not demos:
    print("NO DEMO"); sys.exit(3)
shutil.copy(demos[0], f"{out}/demo.py")
tmp = tempfile.mkdtemp(prefix="hcseed.")
try:
    subprocess.run(["git", "-C", "/repo", "worktree", "add", "-q", "--detach", tmp + "/r", "HEAD"], check=True)
    r = tmp + "/r"
    shutil.copy(f"{out}/demo.py", r + "/demo.py")
    env = dict(os.environ, PYTHONPATH=r, PYTHONDONTWRITEBYTECODE="1")
    def demo():
        p = subprocess.run([PY, "demo.py"], cwd=r, capture_output=True, text=True, env=env, timeout=300)
        return p.returncode, (p.stdout + p.stderr).strip().splitlines()[-3:]
    clean_rc, clean_out = demo()
    subprocess.run(["git", "apply", f"{out}/patch.diff"], cwd=r, check=True)
    mut_rc, mut_out = demo()
    t = subprocess.run([PY, "-m", "pytest", "-q", "-p", "no:cacheprovider", "--timeout=900", "-x"], cwd=r, capture_output=True, text=True, env=env)
    suite = t.stdout.strip().splitlines()[-1] if t.stdout.strip() else "?"
    subprocess.run(["git", "-C", "/repo", "worktree", "remove", "--force", r])
finally:
    shutil.rmtree(tmp, ignore_errors=True)
rp = subprocess.run(["/verif/tools/runpatch.py", f"{out}/patch.diff"], capture_output=True, text=True).stdout
fired = re.search(r"FIRED: (.*)", rp).group(1)
meta = {"seed_id": sid, "property": prop, "needs_to_manifest": needs,
        "files": sorted(set(re.findall(r"^\+\+\+ b/(.*)$", diff, re.M))),
        "confirmed": {"demo_on_clean_tree_exit": clean_rc, "demo_on_clean_tree_tail": clean_out, "demo_with_patch_exit": mut_rc, "demo_with_patch_tail": mut_out,
                      "test_suite_with_patch": suite},
        "ran": ["demo.py on a fresh worktree of /repo HEAD (pass expected)", "git apply patch.diff; demo.py (fail expected)", "full pytest suite with the patch (green expected)",
                "tools/runpatch.py patch.diff (all 20 checks against /repo + patch in a scratch copy)"],
        "checks_fired": [] if fired == "none" else fired.split(","),
        "check_report": [l for l in rp.splitlines() if l.startswith(("C", "     "))][:12]}
ok = clean_rc == 0 and mut_rc != 0 and " failed" not in suite and "passed" in suite
meta["valid_mutant"] = ok
meta["caught_by_target_property_check"] = prop in meta["checks_fired"]
json.dump(meta, open(f"{out}/meta.json", "w"), indent=1)
print(f"{sid}: valid={ok} clean_rc={clean_rc} mut_rc={mut_rc} suite='{suite}' FIRED={fired}")
print("\n".join(meta["check_report"][:8]))
