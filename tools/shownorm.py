#!/venv/bin/python
"""Show the normalised form (what the rules see) of one function of /repo + an optional patch.
usage: tools/shownorm.py <relpath> <Class.func | func> [patch.diff]"""
import ast, os, shutil, subprocess, sys, tempfile
sys.path.insert(0, "/verif")
rel, qual = sys.argv[1:3]
patch = os.path.abspath(sys.argv[3]) if len(sys.argv) > 3 else None
tmp = tempfile.mkdtemp(prefix="hcnorm.")
try:
    for d in ("httpcore", "scripts", "docs"):
        shutil.copytree(os.path.join("/repo", d), os.path.join(tmp, d), ignore=shutil.ignore_patterns("__pycache__"))
    if patch:
        r = subprocess.run(["patch", "-p1", "-s", "-i", patch], cwd=tmp, capture_output=True, text=True)
        if r.returncode:
            print("PATCH FAILED", r.stdout); sys.exit(3)
    from hcverif.load import Program
    prog = Program(tmp)
    mod = next(m for m in prog.modules.values() if m.relpath == rel)
    parts = qual.split(".")
    body = mod.tree.body
    node = None
    for p in parts:
        node = next((n for n in body if isinstance(n, (ast.ClassDef, ast.FunctionDef, ast.AsyncFunctionDef)) and n.name == p), None)
        if node is None:
            print("not found:", p, "; have", [getattr(n, "name", None) for n in body if hasattr(n, "name")]); sys.exit(1)
        body = node.body
    print(ast.unparse(node))
    for n in getattr(mod, "notes", [])[:20]:
        print("#", n)
finally:
    shutil.rmtree(tmp, ignore_errors=True)
