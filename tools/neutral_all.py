#!/venv/bin/python
"""Evaluate stored behaviour-preserving refactors (neutral_seeded/<id>/patch.diff) against all 20 checks:
   tools/neutral_all.py [id-prefix ...]      e.g.  tools/neutral_all.py T N2
The clean-tree result of every check is computed once; every patch is applied to a scratch copy of /repo (outside /repo and /verif)."""
import json, os, re, shutil, subprocess, sys, tempfile
from concurrent.futures import ThreadPoolExecutor
sys.path.insert(0, "/verif")
from selftest.harness import run_check

prefixes = [a for a in sys.argv[1:] if not a.startswith("-")] or [""]
verbose = "-v" in sys.argv
ids = sorted(d for d in os.listdir("/verif/neutral_seeded") if os.path.isfile(f"/verif/neutral_seeded/{d}/patch.diff") and any(d.startswith(p) for p in prefixes))
checks = os.environ.get("HC_CHECKS", "").split(",") if os.environ.get("HC_CHECKS") else [f"C{i:02d}" for i in range(1, 21)]
with ThreadPoolExecutor(16) as ex:
    base = dict(zip(checks, ex.map(lambda c: run_check(c, "/repo"), checks)))
tmps = {}
for nid in ids:
    tmp = tempfile.mkdtemp(prefix="hcneu.")
    for d in ("httpcore", "scripts", "docs"):
        shutil.copytree(os.path.join("/repo", d), os.path.join(tmp, d), ignore=shutil.ignore_patterns("__pycache__"))
    p = subprocess.run(["patch", "-p1", "-s", "-i", f"/verif/neutral_seeded/{nid}/patch.diff"], cwd=tmp, capture_output=True, text=True)
    if p.returncode != 0:
        print(nid, "PATCH FAILED", p.stdout[:200]); shutil.rmtree(tmp, ignore_errors=True); continue
    tmps[nid] = tmp
try:
    jobs = [(nid, c) for nid in tmps for c in checks]
    with ThreadPoolExecutor(16) as ex:
        res = list(ex.map(lambda j: run_check(j[1], tmps[j[0]]), jobs))
finally:
    for t in tmps.values():
        shutil.rmtree(t, ignore_errors=True)
tot = 0
for nid in tmps:
    alarms = {}
    for (n, c), (rc1, k1, _, o1) in zip(jobs, res):
        if n != nid:
            continue
        rc0, k0 = base[c][0], base[c][1]
        if rc0 != rc1 or k0 != k1:
            alarms[c] = {"exit": [rc0, rc1], "new_keys": sorted(k1 - k0), "lost_keys": sorted(k0 - k1), "errors": [l for l in o1.splitlines() if "ANALYSIS-ERROR" in l][:2],
                         "reports": [l.strip()[:300] for l in o1.splitlines() if re.match(r"^   C\d+\.R\d+ at", l) and any(k.split("|", 1)[0] in l for k in (k1 - k0))][:6]}
    mp = f"/verif/neutral_seeded/{nid}/meta.json"
    m = json.load(open(mp)) if os.path.exists(mp) else {"id": nid}
    m["checks_silent"] = sorted(set(checks) - set(alarms)); m["alarms"] = alarms
    json.dump(m, open(mp, "w"), indent=1)
    tot += len(alarms)
    print(f"{nid}: silent {20 - len(alarms)}/20" + ("" if not alarms else "   " + " ".join(f"{c}[{','.join(sorted({k.split('|')[0].split('.')[1] for k in a['new_keys']})) or ('exit' + str(a['exit'][1]))}]" for c, a in alarms.items())))
    if verbose:
        for c, a in alarms.items():
            for k in a["new_keys"][:6]: print("      +", k[:200])
            for e in a["errors"][:1]: print("      !", e[:250])
print(f"TOTAL alarms: {tot} over {len(tmps)} refactors x 20 checks")
