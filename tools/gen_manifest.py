#!/venv/bin/python
"""Regenerates /verif/MANIFEST.json from the table below (kept next to the code so the
manifest is always in step with what ./check implements)."""
import json
import os
import sys

HERE = os.path.dirname(os.path.dirname(os.path.abspath(__file__)))

BASELINE = ("cd /repo && /venv/bin/python -m pytest -ra -q -p no:cacheprovider --timeout=900 "
            "--continue-on-collection-errors")

# id -> (category, technique, level text, level note, design ref)
CLAIMED = {
    "C18": ("translation_validation",
            "translation validation: re-translate every _async source with the SUBS table parsed from scripts/unasync.py, whole-file AST comparison with _sync; interface agreement of primitive/backend twins",
            "Proves on every run that each httpcore/_sync file is exactly the mechanical de-async translation of its _async source "
            "(whole files, identical file sets, unlike the repo's own zip-truncated --check), that the sync/async primitive pairs and "
            "backend twins expose the same interface, and that all sync imports resolve. With that, every other property's async "
            "argument carries over to the sync tree up to primitive behaviour.",
            "Trusts CPython's ast parser and that scripts/unasync.py applies SUBS with re.sub line by line in table order. "
            "Run-time equivalence of threading vs anyio/trio primitives is not decided.",
            "DESIGN.md 5 C18"),
}

NOTE = ("Trusts CPython's ast parser, the hcverif engines, the third-party boundary summaries of DESIGN.md 2.4 and the repository's "
        "own mypy --strict gate for implicit AttributeError/TypeError. Decides the structural clauses named in the level text - not the "
        "run-time behaviour itself; declined clauses are listed in DESIGN.md section 7.")


def other(tech, text, ref):
    return ("other", tech, text, NOTE, ref)


CLAIMED.update({
    "C01": other("typestate / writer census + predicate truth tables + provenance of hand-outs (ast, CFG, def-use)",
                 "Every run decides, on both trees: the only writers of the HTTP/1.1 and HTTP/2 connection state and the constant each may store; "
                 "that IDLE is stored only under both-h11-sides-DONE (else branch closes on every path) or ACTIVE-and-no-streams; that the ACTIVE gate is a "
                 "test-and-set under the state lock with ConnectionNotAvailable otherwise; the truth tables of is_available(); that every connection the pool "
                 "hands out is filtered by the request's own origin and availability or freshly created; that the response stream is bound to its "
                 "connection/request/stream id; and that the HTTP/2 event table is keyed by the event's own id. These are necessary conditions of "
                 "no cross-talk for every history; byte equality is h11/h2 behaviour and not decided.", "DESIGN.md 5 C01"),
    "C04": other("abstract interpretation of the assignment pass over {len<=max, len<max} + whole-program mutator census + CFG path rules",
                 "Inductive argument for len(_connections) <= max_connections under every schedule (append only under a strict len<max fact or after a "
                 "remove; no other mutator anywhere; the pass is atomic by C08.R1), one socket per connection object (guarded by `inner is None` under the "
                 "connection lock and followed by the store), and exactness of the establishment-failure flag.", "DESIGN.md 5 C04"),
    "C09": other("guard/dominance analysis of the assignment pass, eviction-reason census, truth tables of has_expired and the keep-alive limit",
                 "Decides reuse-before-create, clean-up dominating every hand-out, that each eviction site has one of the allowed reasons (with the idle "
                 "count actually counting idle connections), that expiry is armed on IDLE / cleared on ACTIVE, and folds has_expired() and the keep-alive "
                 "limit over finite tables. Clock behaviour is not decided.", "DESIGN.md 5 C09"),
    "C14": other("handler exactness + interprocedural may-analysis 'request data sent before this raise' + loop census (CFG, call graph)",
                 "Decides that the pool repeats a request only on ConnectionNotAvailable, that every raise of it happens before any request-emitting "
                 "primitive can have run in the same call or under the GOAWAY last-stream-id guard, and that no loop other than the pool retry / "
                 "per-chunk / per-frame loops contains a send.", "DESIGN.md 5 C14"),
    "C15": other("exception-escape (effect) analysis: fixpoint over the resolved call graph with handler filtering, map_exceptions rewriting, cause tags",
                 "Computes the set of exception classes that can leave each of 26 public entry points per tree and requires it to be within the "
                 "documented classes (or allowed/infeasible with a written reason), with the cause matching the class; plus EOF disposition of every "
                 "read and well-formedness of the backend exception maps. Found KF2-KF6, KF20, KF24 and the new KF26 on the pinned tree.", "DESIGN.md 5 C15"),
    "C16": other("argument provenance (reaching definitions, kwargs idiom, inter-procedural lifting through helpers) of every timeout argument",
                 "Every one of the 19+2+2 call sites per tree that resolves to a network or pool-wait operation must receive "
                 "request.extensions.get('timeout', {}).get(K, None) with K matching the operation kind; backends must apply the parameter to the "
                 "blocking call. The instant a timeout fires is not decided.", "DESIGN.md 5 C16"),
    "C20": other("handler exactness, call-graph reachability inside the retried region, counter induction over CFG paths, constant folding of the back-off generator",
                 "The retry loop repeats only on ConnectError/ConnectTimeout, contains only establishment operations, is bounded by an exactly-once "
                 "decremented counter initialised from `retries` with re-raise iff counter <= 0, and sleeps next(delays) with delays folding to "
                 "0, 0.5, 1, 2, 4.", "DESIGN.md 5 C20"),
})

CLAIMED.update({
    "C02": other("lossless-flow rules over the response path (loop exit sets, single-yield, pass-through generators), EOF disposition over the CFG, def-use of head fields",
                 "Decides that the glue between socket and caller is lossless: every read reaches the parser, every event of a batch is dispatched, body loops "
                 "yield each data event once and end only on the end events, header loops leave only on the final response/101, pass-through generators "
                 "forward everything, EOF is either fed to an EOF-aware parser or raises, and head fields are delivered unchanged. Segmentation "
                 "independence of the h11/h2 parsers themselves is not decided.", "DESIGN.md 5 C02"),
    "C03": other("argument provenance of the request head, lossless-flow rules over the body loops and the frame splitter, guard analysis of default headers",
                 "Decides that the events handed to h11/h2 are built from exactly the request's method/target/headers/body (HTTP/2 pseudo-headers, filter set "
                 "{host, transfer-encoding}), each body chunk is sent once and followed by one end marker, END_STREAM agrees with the body routine, default "
                 "headers are inserted only when absent, and the head is validated before the first write. What h11/h2 emit is not decided.", "DESIGN.md 5 C03"),
    "C05": other("typestate coverage and pairing rules over the exceptional CFG (cancellation edges at every suspending await, shield scopes, handler matching)",
                 "For every fault point (await, network/protocol error) decides whether abandoning the request there can leave the queue entry, the connection "
                 "state machine or a lazily established wrapper in a transient configuration: queue pairing, typestate coverage of the HTTP/1.1 and HTTP/2 "
                 "request routines, establishment marking of the three wrappers, shielding of recovery awaits, close-once. Reports KF8, KF9, KF17, KF22, KF23 "
                 "on the pinned tree; the SOCKS establishment handler was repaired.", "DESIGN.md 5 C05"),
    "C06": other("resource-ownership dataflow over the exceptional CFG, must-use of the closing list, close-delegation census",
                 "Decides that every stream acquisition is transferred or closed on every path including cancellation (KF11 recorded, KF10 repaired), that "
                 "evicted connections always reach _close_connections, that every holder of a closeable closes it, that a refused CONNECT closes, and that "
                 "backends close on TLS failure.", "DESIGN.md 5 C06"),
    "C07": other("path rules on the queue protocol + blocking-effect analysis under the pool lock + wait-for graph over locks and stream-slot permits",
                 "Necessary conditions of progress: every queue mutation is followed by the assignment pass, check-before-wait / store-before-set / re-arm, "
                 "retry handler re-assigns, no blocking operation reachable under the pool lock, and no cycle in the wait-for graph (the HTTP/2 "
                 "read-lock / stream-slot cycle is KF16). Liveness over all schedules is not decided.", "DESIGN.md 5 C07"),
    "C08": other("lockset analysis (must-hold at entry = intersection over call sites), re-entry and lock-order graph on the sync tree",
                 "Lock discipline that thread-safety needs: pool fields only under the pool lock, state transitions under the state lock, no re-entry, no "
                 "blocking under the pool lock, acyclic lock order (KF16), one common lock for the shared h2 state machine (KF25). All-interleavings "
                 "correctness is not decided.", "DESIGN.md 5 C08"),
    "C10": other("predicate partial evaluation over the scheme x proxy matrix, argument provenance of establishment calls, truth tables of protocol selection",
                 "Decides the origin gates, that host/port of every connect / negotiation / CONNECT / inner connection come from the right origin, TLS iff "
                 "scheme in {https, wss} in all 16 dispatch cells (KF13 recorded, KF12 repaired), SNI (KF14 repaired), ALPN and the HTTP/2 selection "
                 "predicate.", "DESIGN.md 5 C10"),
    "C11": other("taint / provenance with a constructor summary of Request computed from the source, interval folding, reader/writer census of the proxy header list",
                 "Decides what each proxy hop is built from: forward merge order and absolute-form target, CONNECT isolation from caller data (KF15: the "
                 "caller's extensions can rewrite the CONNECT target), refusal interval, confinement of Proxy-Authorization, SOCKS arguments and ordering.",
                 "DESIGN.md 5 C11"),
    "C12": other("demux-key consistency, slot-accounting dominance and constant folding, paired-update check of the SETTINGS handler, wait-for cycle detection",
                 "Decides that events are keyed by their own stream id, a slot is acquired before every stream id allocation with exactly one initial permit "
                 "and bound 100, SETTINGS changes adjust permits by paired updates to min(remote, local), registration precedes the first send, and reports "
                 "the read-lock / slot wait-for cycle (KF16).", "DESIGN.md 5 C12"),
    "C13": other("upper-bound provenance of the send_data argument, no-suspension region check on the CFG, loop re-read rule, lossless split, credit-return rule",
                 "Decides that at most min(window, frame size, len) bytes of the right stream are passed to send_data with no suspension between window read "
                 "and send, that the wait loop re-reads the window, that the split is lossless, that every DATA frame is acknowledged with its "
                 "flow-controlled length and flushed, and the 2**24 increments. Completion for every WINDOW_UPDATE schedule is not decided.", "DESIGN.md 5 C13"),
    "C17": other("lossless-split rule, provenance of the upgrade stream's arguments, truth table of the wrapping condition",
                 "Decides the upgrade stream's read/write/delegation, that it is built from the connection's stream and h11's trailing data under exactly "
                 "`101 or (CONNECT and 2xx)`, that the tunnel upgrades the handed-over stream, and that a switched connection can never idle.", "DESIGN.md 5 C17"),
    "C19": other("literal table agreement, field-coverage census, use-only-through-enforce rule, parser component coverage, host-form typestate, truth tables",
                 "Decides agreement of the default-port tables, that equality/serialisation cover exactly the constructor's fields, that text parameters only "
                 "reach storage through enforce_*, that the target reads every component the split function separates (KF18 repaired), IPv6 bracketing at "
                 "authority sinks (KF19 recorded), the Host port rule and order preservation of the header helpers. RFC 3986 conformance is not decided.",
                 "DESIGN.md 5 C19"),
})

# rules added after the level texts above were written (four rounds of independently seeded changes; DESIGN.md 11.7-11.9)
EXTRA = {
    "C14": "Also (round 7): a connection that has seen GOAWAY is not available to the pool's retry (C14.R5, rule of C01.R4).",
    "C01": "Also: stream-table writer census, send-state fidelity, instance (not class) state, CLOSED stored before the first suspension of the lock-free close routine, and the convenience API closing an unfinished exchange on every exit. Round 6: every append to a per-stream event queue holds the read lock under which the batch was read (C01.R12). Round 9: the HTTP/1.1 response-close routine never reads or advances the peer side of h11 (C01.R13) - the both-sides-DONE test stays sound after a failed send.",
    "C02": "Also: no cancellation point between h2.receive_data() and the end of the batch dispatch (reports KF27), and each real backend's read() returning the bytes of one receive primitive unmodified (b'' only for an end-of-stream class). Round 7: every DATA frame's flow-controlled length is returned as credit (C02.R8, the rule of C13.R5 run under this property). Round 8: inside the h2 read lock the socket is read only while the caller's own event queue is still empty (C02.R9, double-checked read). Round 10: no context manager of the package can suppress the exception raised in its block, so a failed body read never ends as a short body (C02.R10).",
    "C03": "Also: drain-to-write atomicity, fresh header list, Request never modified after construction, and each real backend's write() delivering the whole buffer (write-all primitive or a partial send in a loop advanced by the returned count). Round 6: census of `raise ConnectionNotAvailable` - a transmission attempt is repeated only from a point where nothing can have been sent (C03.R10; reports KF33: the GOAWAY re-send of a consumed iterator body). Round 7: the supplied Host / :authority names the URL's authority (C03.R11, rule of C19.R6). Round 8: no store into a URL / Origin object after construction - the caller's own URL instance is passed through (C03.R12, rule of C19.R8).",
    "C04": "Also: closed-means-closed predicates, lazy establishment as a test-and-set inside the establishment lock (lexical on both trees, await-atomicity census on the async tree). Round 5: every run of the assignment pass holds the pool lock (C04.R9, sync tree). Round 9: a private helper called only from inside the establishment region belongs to it; inside the attempt loop the failure flag is stored only on paths that leave the loop (C04.R4).",
    "C05": "Also: convenience API / Response close on every exit, shield fidelity, AsyncEvent.wait reporting PoolTimeout only as the mapped expiry of fail_after, the origin store link, and the abandoned-waiter rule (assignment consumed or inspected on every exit) which reports KF29.",
    "C06": "Also: is_closed() truth tables, backend close() reaching the OS release on every path, every raising construct of start_tls (timeout scope included) inside the try that closes the stream, pool context exit and one-shot API scoping. Round 9: the establishment-failure flag is set only when establishment has finally failed (C06.R9, rule of C04.R4; reports KF21 - the first stream is never closed). Round 10: the scheme gate of the pool tests the raw scheme and admits only keys of the URL.origin table, so the assignment pass cannot raise between taking connections off the list and returning them for closing (C06.R10).",
    "C07": "Also: the typestate and establishment rules shared with C05, primitive fidelity (no check-then-create window for a lost wake-up), the abandoned-waiter rule (KF29) and the origin store link. Round 7: is_available() of an establishing connection tests the scheme of the origin it serves (C07.R11). Round 8: a task that waited for the h2 read lock re-checks its own event queue before reading the socket - otherwise it blocks on a server that has answered (C07.R12). Round 9: stream-slot permits follow the advertised limit exactly (C07.R13, rule of C12.R3).",
    "C08": "Also: h2 drain+write / read+feed critical sections, primitive fidelity, establishment test-and-set, and an Eraser-style lockset census over all 27 written fields of the 11 thread-shared classes with check-then-act detection (found KF31, repaired). Rounds 5-6: publication order for double-checked locking (C08.R11), census of unlocked tests of lock-managed fields outside the advisory predicates (C08.R12), implicit __repr__/__str__ calls through logging and f-strings in the re-entry / blocking analyses. Round 7: only idle / expired / surplus-idle connections are evicted (C08.R13, rule of C09.R3).",
    "C09": "Also: the IDLE store guarded by the maintained in-flight set, the readability probe polling the OS socket on every backend, keepalive_expiry plumbing through every constructor call, and visibility of a request past the ACTIVE gate to the IDLE transition (reports KF32). Round 8: the has_expired() truth table includes keepalive_expiry=None (no deadline armed): the readability probe of an idle connection must still be reached. Round 9: recovery awaits of the connection classes are shielded, so in-flight accounting that keeps a connection ACTIVE is always given back (C09.R9, rule of C05.R4).",
    "C10": "Also: ALPN set before the handshake with no network operation in between, fresh SSL context, plumbing of TLS / protocol / origin / connect-target parameters through every constructor call, derived URL/Origin identity, AutoBackend as a pure delegation. Rounds 5-6: ALPN set on the very context that is handed to the handshake, on every path (dominance); nothing modifies a Request or the extensions mapping it shares with the caller (C10.R11). Round 7: TLS and the origin request go onto a tunnel only after a 2xx (C10.R12, rule of C11.R3). Round 9: the CONNECT target is decided by evaluation with distinct remote / proxy / caller hosts; a protocol-selection variable bound once per branch is judged binding by binding (C10.R2, C10.R6). Round 10: the establishing modules modify no per-process object (class-level / module-level container, mutable default) in place - scan of the source as written, before constants are inlined (C10.R13).",
    "C11": "Also: the SOCKS negotiated address, the refusal branch failing only with ProxyError, and proxy-hop configuration plumbing (the hop to the proxy never inherits the origin's protocol flags). Round 7: TLS-scheme origins behind an HTTP proxy are tunnelled, never forwarded (C11.R7, cells of C10.R3). Round 9: the CONNECT target value is decided by evaluation (C11.R2).",
    "C12": "Also: stream-table census, connection-wide failure fields set only for Exceptions, stream id reserved atomically with HEADERS (reports KF30), a request waiting for a slot visible to the IDLE transition (reports KF32), await-atomicity census. Round 6: no cancellation point between draining the shared h2 output buffer and writing it (C12.R10). Round 7: a peer's MAX_CONCURRENT_STREAMS = 0 is never applied (C12.R11). Round 8: double-checked read of the shared socket (C12.R12); the stream-slot permit is given back at most once per response (C12.R13, rule of C05.R5).",
    "C13": "Also: the wait loop waiting while the window is negative (found KF28, repaired), END_STREAM agreement between HEADERS and the body routine, and the backend write() delivering each frame completely and in order. Round 9: flush-before-wait - a forward may-analysis over the HTTP/2 class shows no network read is reached while frames the task queued on the h2 state machine are unwritten (C13.R9).",
    "C15": "Also: timeout scopes inside the mapping scope, every raw socket/runtime call of a backend operation inside map_exceptions, the mapping helper itself still meaning what the analysis assumes, no context manager of the package suppressing exceptions. Round 7: the internal retry signal is raised after a send only strictly above the GOAWAY's last-stream-id (C15.R8, rule of C14.R2). Round 9: an escape through a parked exception (`raise self._read_exception`) is keyed separately from the direct one, so a known finding cannot hide a new way out.",
    "C16": "Also: the caller's extensions never mutated, derived requests carrying the caller's whole extensions mapping, and the bound handed to the runtime evaluated for timeout in {0, 0.0, 2.5, None} (0 is a limit, only None is unbounded). Round 9: every PoolTimeout-capable wait of an async primitive is entered only under a state test that waiting is needed - zero pool timeout (C16.R6).",
    "C17": "Also: no Response method other than close/aclose ends the exchange. Round 9: the wrap condition may not depend on anything but status and method (extra tests after the head are reported); start_tls / get_extra_info of the wrapper are not judged.",
    "C18": "Also: hand-written sync/async pairs of shared modules equal after de-async, the three real backends mapping the same failure kind to the same class and answering the same extra-info keys, and every coroutine call of the async code being awaited. Round 6: no path from inside a pool-lock region re-acquires the lock - the one construct that is a no-op in the async flavour and a non-reentrant lock in the sync flavour (C18.R9). Round 8: the thread Event and the async Event accept the same timeout domain - inf and None both mean no limit (C18.R10). Round 9: every literal the running-library tag is compared with is one current_async_library() returns (C18.R11).",
    "C19": "Also: URL / Origin never modified outside their constructors, derived URL/Origin copying scheme, host and port. Rounds 5-6: the parse is applied to the type- and ASCII-checked whole argument (parse-input), port 0 in the Host grid, known finding keyed by routine and host expression. Round 9: every authority formatter is evaluated over {registered name, IPv6 literal that arrives bracketed}: the host appears once, as given (C19.R10). Round 10: identity tests only against None / True / False / UPPER_CASE sentinels; the evaluators return UNKNOWN for `is` between ordinary values instead of reading it as `==` (C19.R11).",
    "C20": "Also: only network failure classes mapped to ConnectError/ConnectTimeout by the backends, retries plumbing, and every coroutine call on the sleep chain being awaited. Rounds 5-6: the number of retries decided by evaluating the exhaustion guard / the range for retries = -1, 0, 1, 2, 5 (counting down, up, or a for-loop); the back-off sequence advanced only in the failure handler. Round 9: eight back-off delays are folded (a levelled-off sequence deviates from the sixth retry on).",
}
for _pid, _extra in EXTRA.items():
    _c = CLAIMED[_pid]
    CLAIMED[_pid] = (_c[0], _c[1], _c[2] + " " + _extra, _c[3], _c[4])

ALL = [f"C{i:02d}" for i in range(1, 21)]


def main() -> None:
    na_path = os.path.join(HERE, "tools", "not_applicable.json")
    na = json.load(open(na_path)) if os.path.isfile(na_path) else {}
    checks = []
    for pid in ALL:
        if pid not in CLAIMED:
            continue
        cat, tech, text, note, ref = CLAIMED[pid]
        checks.append({
            "property_id": pid,
            "quick_cmd": f"./check {pid}",
            "thorough_cmd": f"./check {pid} --tier thorough",
            "evidence_file": f"/verif/evidence/{pid}.json",
            "replay_cmd_template": f"./check {pid} --replay {{path}}",
            "engine": "hcverif",
            "level_claimed": {"category": cat, "text": text, "design_ref": ref},
            "level_note": note,
            "technique": tech,
        })
    manifest = {
        "version": 1,
        "setup_cmd": "true",
        "hooks": {
            "guard": "HTTPCORE_VERIF",
            "enable": "no hooks: the checks never execute httpcore, they parse /repo's working tree with ast",
            "baseline_off_cmd": BASELINE,
            "source_commits": [],
            "add_only": True,
        },
        "engines": [{
            "name": "hcverif",
            "path": "/verif/hcverif",
            "serves_properties": sorted(CLAIMED),
            "kind_free_text": "repository-specific static analysis over Python ast: loader/index, annotation-driven type and call "
                              "resolution, statement CFG with exceptional and cancellation edges, reaching definitions / provenance, "
                              "exception-escape fixpoint, lockset / wait-for analysis, predicate normalisation, twin translation validation",
        }],
        "checks": checks,
        "notes": "All checks are static (no execution of httpcore, tests, solvers or model checkers). exit 2 + ANALYSIS-ERROR means the "
                 "analysis lost an anchor and refuses to pass vacuously. Known findings: /verif/known_findings.json. See DESIGN.md.",
        "not_applicable": [
            {"property_id": pid, "reason": na.get(pid, "check not built yet in this round (planned: DESIGN.md section 5)")}
            for pid in ALL if pid not in CLAIMED
        ],
    }
    with open(os.path.join(HERE, "MANIFEST.json"), "w") as f:
        json.dump(manifest, f, indent=1)
        f.write("\n")
    print(f"MANIFEST.json: {len(checks)} checks, {len(manifest['not_applicable'])} not claimed")


if __name__ == "__main__":
    sys.exit(main())
