#!/venv/bin/python
"""Regenerates /verif/MANIFEST.json from the table below (kept next to the code so the
manifest is always in step with what ./check implements)."""
import json
import os
import sys

HERE = os.path.dirname(os.path.dirname(os.path.abspath(__file__)))

BASELINE = ("cd /repo && /venv/bin/python -m pytest -ra -q -p no:cacheprovider --timeout=900 "
            "--continue-on-collection-errors")

# id -> (category, technique, level text, level note, design ref)
CLAIMED = {
    "C18": ("translation_validation",
            "translation validation: re-translate every _async source with the SUBS table parsed from scripts/unasync.py, whole-file AST comparison with _sync; interface agreement of primitive/backend twins",
            "Proves on every run that each httpcore/_sync file is exactly the mechanical de-async translation of its _async source "
            "(whole files, identical file sets, unlike the repo's own zip-truncated --check), that the sync/async primitive pairs and "
            "backend twins expose the same interface, and that all sync imports resolve. With that, every other property's async "
            "argument carries over to the sync tree up to primitive behaviour.",
            "Trusts CPython's ast parser and that scripts/unasync.py applies SUBS with re.sub line by line in table order. "
            "Run-time equivalence of threading vs anyio/trio primitives is not decided.",
            "DESIGN.md 5 C18"),
}

NOT_YET = {}

ALL = [f"C{i:02d}" for i in range(1, 21)]


def main() -> None:
    na_path = os.path.join(HERE, "tools", "not_applicable.json")
    na = json.load(open(na_path)) if os.path.isfile(na_path) else {}
    checks = []
    for pid in ALL:
        if pid not in CLAIMED:
            continue
        cat, tech, text, note, ref = CLAIMED[pid]
        checks.append({
            "property_id": pid,
            "quick_cmd": f"./check {pid}",
            "thorough_cmd": f"./check {pid} --tier thorough",
            "evidence_file": f"/verif/evidence/{pid}.json",
            "replay_cmd_template": f"./check {pid} --replay {{path}}",
            "engine": "hcverif",
            "level_claimed": {"category": cat, "text": text, "design_ref": ref},
            "level_note": note,
            "technique": tech,
        })
    manifest = {
        "version": 1,
        "setup_cmd": "true",
        "hooks": {
            "guard": "HTTPCORE_VERIF",
            "enable": "no hooks: the checks never execute httpcore, they parse /repo's working tree with ast",
            "baseline_off_cmd": BASELINE,
            "source_commits": [],
            "add_only": True,
        },
        "engines": [{
            "name": "hcverif",
            "path": "/verif/hcverif",
            "serves_properties": sorted(CLAIMED),
            "kind_free_text": "repository-specific static analysis over Python ast: loader/index, annotation-driven type and call "
                              "resolution, statement CFG with exceptional and cancellation edges, reaching definitions / provenance, "
                              "exception-escape fixpoint, lockset / wait-for analysis, predicate normalisation, twin translation validation",
        }],
        "checks": checks,
        "notes": "All checks are static (no execution of httpcore, tests, solvers or model checkers). exit 2 + ANALYSIS-ERROR means the "
                 "analysis lost an anchor and refuses to pass vacuously. Known findings: /verif/known_findings.json. See DESIGN.md.",
        "not_applicable": [
            {"property_id": pid, "reason": na.get(pid, "check not built yet in this round (planned: DESIGN.md section 5)")}
            for pid in ALL if pid not in CLAIMED
        ],
    }
    with open(os.path.join(HERE, "MANIFEST.json"), "w") as f:
        json.dump(manifest, f, indent=1)
        f.write("\n")
    print(f"MANIFEST.json: {len(checks)} checks, {len(manifest['not_applicable'])} not claimed")


if __name__ == "__main__":
    sys.exit(main())
