"""Must-fire mutants: each breaks one rule instance, still parses, and (checked by hand when it was
added) keeps the existing test-suite green.  The report must name the expected rule."""
from __future__ import annotations

A = "httpcore/_async/"
MUTANTS: list[dict] = []


def M(id_: str, props: str, file: str, old: str, new: str, rule: str | None = None) -> None:
    MUTANTS.append({"id": id_, "props": props.split(","), "file": file, "old": old, "new": new, "rule": rule})


# ---- C01 ------------------------------------------------------------------------------------------------
M("c01-drop-their-state", "C01,C17", A + "http11.py",
  "                self._h11_state.our_state is h11.DONE\n                and self._h11_state.their_state is h11.DONE",
  "                self._h11_state.our_state is h11.DONE", None)
M("c01-new-available", "C01", A + "http11.py", "return self._state == HTTPConnectionState.IDLE\n\n    def has_expired",
  "return self._state in (HTTPConnectionState.IDLE, HTTPConnectionState.NEW)\n\n    def has_expired", "C01.R4")
M("c01-demux-own-id", "C01,C12", A + "http2.py", "stream_events = self._events.get(event.stream_id)", "stream_events = self._events.get(stream_id)", None)
M("c08-events-check-then-act", "C08", A + "http2.py", "                        stream_events = self._events.get(event.stream_id)\n                        if stream_events is not None:\n                            stream_events.append(event)\n",
  "                        if event.stream_id in self._events:\n                            self._events[event.stream_id].append(event)\n", "C08.R11")   # reverts fix 7a268ce (KF31)
M("c02-events-truthy-guard-drops-first", "C02,C12", A + "http2.py", "                        if stream_events is not None:\n", "                        if stream_events:\n", None)
M("c01-h2-available-error", "C01", A + "http2.py", "            and not self._connection_error\n", "", "C01.R4")
M("c01-pool-no-origin-filter", "C01", A + "connection_pool.py", "if connection.can_handle_request(origin) and connection.is_available()", "if connection.is_available()", "C01.R5")
M("c01-else-no-close", "C01", A + "http11.py", "            else:\n                await self.aclose()\n\n    # Once the connection", "            else:\n                pass\n\n    # Once the connection", "C01.R2")
M("c01-gate-accepts-active", "C01", A + "http11.py", "            if self._state in (HTTPConnectionState.NEW, HTTPConnectionState.IDLE):",
  "            if self._state in (HTTPConnectionState.NEW, HTTPConnectionState.IDLE, HTTPConnectionState.ACTIVE):", "C01.R3")
M("c01-state-writer-elsewhere", "C01", A + "http11.py", "    def is_idle(self) -> bool:\n        return self._state == HTTPConnectionState.IDLE",
  "    def is_idle(self) -> bool:\n        if self._expire_at is not None:\n            self._state = HTTPConnectionState.IDLE\n        return self._state == HTTPConnectionState.IDLE", "C01.R1")
# ---- C02 ------------------------------------------------------------------------------------------------
M("c02-skip-short-chunks", "C02", A + "http11.py", "                async for chunk in self._connection._receive_response_body(**kwargs):\n                    yield chunk",
  "                async for chunk in self._connection._receive_response_body(**kwargs):\n                    if len(chunk) > 1:\n                        yield chunk", "C02.R4")
M("c02-h2-no-eof-test", "C02,C15", A + "http2.py", "            if data == b\"\":\n                raise RemoteProtocolError(\"Server disconnected\")", "            pass", None)
M("c02-break-on-any-1xx", "C02", A + "http11.py", "            if (\n                isinstance(event, h11.InformationalResponse)\n                and event.status_code == 101\n            ):\n                break",
  "            if isinstance(event, h11.InformationalResponse):\n                break", "C02.R3")
M("c02-lowercased-headers", "C02", A + "http11.py", "headers = event.headers.raw_items()", "headers = list(event.headers)", "C02.R6")
M("c02-early-body-exit", "C02", A + "http11.py", "            elif isinstance(event, (h11.EndOfMessage, h11.PAUSED)):\n                break",
  "            elif isinstance(event, (h11.EndOfMessage, h11.PAUSED)) or not event.data:\n                break", "C02.R2")
M("c02-h11-truthy-feed", "C02,C15", A + "http11.py", "                self._h11_state.receive_data(data)\n            else:", "                if data:\n                    self._h11_state.receive_data(data)\n            else:", None)
M("c02-h2-header-altered", "C02", A + "http2.py", "            elif not k.startswith(b\":\"):\n                headers.append((k, v))", "            elif not k.startswith(b\":\"):\n                headers.append((k.lower(), v.strip()))", "C02.R6")
# ---- C03 ------------------------------------------------------------------------------------------------
M("c03-filter-connection", "C03", A + "http2.py", "                b\"host\",\n                b\"transfer-encoding\",", "                b\"host\",\n                b\"transfer-encoding\",\n                b\"connection\",", "C03.R3")
M("c03-end-stream-by-method", "C03", A + "http2.py", "        end_stream = not has_body_headers(request)", "        end_stream = request.method in (b\"GET\", b\"HEAD\")", "C03.R4")
M("c03-conditional-eom", "C03", A + "http11.py", "        await self._send_event(h11.EndOfMessage(), timeout=timeout)", "        if request.method != b\"GET\":\n            await self._send_event(h11.EndOfMessage(), timeout=timeout)", "C03.R2")
M("c03-target-from-path", "C03", A + "http11.py", "                target=request.url.target,", "                target=request.url.target.split(b\"?\")[0],", "C03.R1")
# ---- C04 ------------------------------------------------------------------------------------------------
M("c04-le-limit", "C04", A + "connection_pool.py", "elif len(self._connections) < self._max_connections:", "elif len(self._connections) <= self._max_connections:", "C04.R1")
M("c04-evict-without-remove", "C04", A + "connection_pool.py", "                connection = idle_connections[0]\n                self._connections.remove(connection)", "                connection = idle_connections[0]", "C04.R1")
M("c04-append-elsewhere", "C04", A + "connection_pool.py", "                    pool_request.clear_connection()", "                    pool_request.clear_connection()\n                    self._connections.append(connection)", "C04.R2")
# ---- C05 ------------------------------------------------------------------------------------------------
M("c05-pool-except-exception", "C05", A + "connection_pool.py", "        except BaseException as exc:\n            with self._optional_thread_lock:", "        except Exception as exc:\n            with self._optional_thread_lock:", "C05.R1")
M("c05-h11-unshielded-recovery", "C05", A + "http11.py",
  "            with AsyncShieldCancellation():\n                async with Trace(\"response_closed\", logger, request) as trace:\n                    await self._response_closed()\n            raise exc",
  "            async with Trace(\"response_closed\", logger, request) as trace:\n                await self._response_closed()\n            raise exc", None)
M("c05-pool-no-remove", "C05", A + "connection_pool.py",
  "                self._requests.remove(pool_request)\n                closing = self._assign_requests_to_connections()\n\n            await self._close_connections(closing)\n            raise exc from None",
  "                closing = self._assign_requests_to_connections()\n\n            await self._close_connections(closing)\n            raise exc from None", "C05.R1")
M("c05-direct-except-exception", "C05", A + "connection.py", "        except BaseException as exc:\n            self._connect_failed = True\n            raise exc", "        except Exception as exc:\n            self._connect_failed = True\n            raise exc", "C05.R3")
M("c05-h2-except-exception", "C05", A + "http2.py", "        except BaseException as exc:  # noqa: PIE786\n            with AsyncShieldCancellation():\n                kwargs = {\"stream_id\": stream_id}",
  "        except Exception as exc:  # noqa: PIE786\n            with AsyncShieldCancellation():\n                kwargs = {\"stream_id\": stream_id}", "C05.R2")
M("c05-pbs-unshielded", "C05", A + "connection_pool.py",
  "            self._closed = True\n            with AsyncShieldCancellation():\n                if hasattr(self._stream, \"aclose\"):\n                    await self._stream.aclose()",
  "            self._closed = True\n            if hasattr(self._stream, \"aclose\"):\n                await self._stream.aclose()", None)
# ---- C06 ------------------------------------------------------------------------------------------------
M("c06-expired-not-closed", "C06", A + "connection_pool.py", "                self._connections.remove(connection)\n                closing_connections.append(connection)\n            elif (", "                self._connections.remove(connection)\n            elif (", "C06.R1")
M("c06-close-only-idle", "C06", A + "connection.py", "        if self._connection is not None:\n            async with Trace(\"close\", logger, None, {}):", "        if self._connection is not None and self._connection.is_idle():\n            async with Trace(\"close\", logger, None, {}):", "C06.R2")
M("c06-refusal-no-close", "C06", A + "http_proxy.py", "                    await self._connection.aclose()\n                    raise ProxyError(msg)", "                    raise ProxyError(msg)", "C06.R4")
M("c06-pool-close-idle-only", "C06", A + "connection_pool.py", "            closing_connections = list(self._connections)\n            self._connections = []", "            closing_connections = [c for c in self._connections if c.is_idle()]\n            self._connections = []", "C06.R1")
M("c06-backend-no-close", "C06", "httpcore/_backends/anyio.py", "            except Exception as exc:  # pragma: nocover\n                await self.aclose()\n                raise exc", "            except Exception as exc:  # pragma: nocover\n                raise exc", "C06.R5")
M("c06-h2-close-no-stream", "C06", A + "http2.py", "        self._state = HTTPConnectionState.CLOSED\n        await self._network_stream.aclose()", "        self._state = HTTPConnectionState.CLOSED", "C06.R2")
M("c06-socks-no-close", "C06", A + "socks_proxy.py", "                    if stream is not None:\n                        with AsyncShieldCancellation():\n                            await stream.aclose()\n", "", "C06.R3")
# ---- C07 / C08 -------------------------------------------------------------------------------------------
M("c07-close-no-reassign", "C07", A + "connection_pool.py",
  "                self._pool._requests.remove(self._pool_request)\n                closing = self._pool._assign_requests_to_connections()", "                self._pool._requests.remove(self._pool_request)\n                closing = []", "C07.R1")
M("c07-unconditional-wait", "C07", A + "connection_pool.py", "        if self.connection is None:\n            await self._connection_acquired.wait(timeout=timeout)", "        await self._connection_acquired.wait(timeout=timeout)", "C07.R2")
M("c07-set-before-store", "C07,C08", A + "connection_pool.py", "        self.connection = connection\n        self._connection_acquired.set()", "        self._connection_acquired.set()\n        self.connection = connection", None)
M("c07-close-under-lock", "C07", A + "connection_pool.py", "                    closing = self._assign_requests_to_connections()\n                await self._close_connections(closing)\n\n                # Wait",
  "                    closing = self._assign_requests_to_connections()\n                    await self._close_connections(closing)\n\n                # Wait", "C07.R4")
M("c07-no-clear", "C07", A + "connection_pool.py", "                    pool_request.clear_connection()\n", "                    pass\n", "C07.R3")
M("c08-pool-close-unlocked", "C08", A + "connection_pool.py", "        with self._optional_thread_lock:\n            closing_connections = list(self._connections)\n            self._connections = []\n        await",
  "        closing_connections = list(self._connections)\n        self._connections = []\n        await", "C08.R1")
M("c08-state-outside-lock", "C08", A + "http2.py", "        async with self._state_lock:\n            if self._connection_terminated and not self._events:", "        if True:\n            if self._connection_terminated and not self._events:", "C08.R2")
# ---- C09 ------------------------------------------------------------------------------------------------
M("c09-no-clear-expiry", "C09", A + "http11.py", "                self._state = HTTPConnectionState.ACTIVE\n                self._expire_at = None", "                self._state = HTTPConnectionState.ACTIVE", "C09.R4")
M("c09-expired-inverted", "C09", A + "http2.py", "return self._expire_at is not None and now > self._expire_at", "return self._expire_at is not None and now < self._expire_at", "C09.R4")
M("c09-evict-idle-not-expired", "C09", A + "connection_pool.py", "            elif connection.has_expired():", "            elif connection.is_idle():", None)
M("c09-no-min", "C09", A + "connection_pool.py", "        self._max_keepalive_connections = min(\n            self._max_connections, self._max_keepalive_connections\n        )", "", "C09.R5")
M("c09-reuse-only-at-limit", "C09", A + "connection_pool.py", "            if available_connections:\n                # log: \"reusing existing connection\"",
  "            if available_connections and len(self._connections) >= self._max_connections:\n                # log: \"reusing existing connection\"", "C09.R1")
M("c09-count-all", "C09", A + "connection_pool.py", "len([c for c in self._connections if c.is_idle()])", "len([c.is_idle() for c in self._connections])", "C09.R3")
# ---- C10 ------------------------------------------------------------------------------------------------
M("c10-direct-https-only", "C10", A + "connection.py", "if self._origin.scheme in (b\"https\", b\"wss\"):", "if self._origin.scheme == b\"https\":", "C10.R3")
M("c10-h2-if-enabled", "C10", A + "connection.py", "if http2_negotiated or (self._http2 and not self._http1):", "if http2_negotiated or self._http2:", "C10.R6")
M("c10-socks-proxy-port", "C10", A + "socks_proxy.py", "\"host\": self._remote_origin.host.decode(\"ascii\"),\n                        \"port\": self._remote_origin.port,",
  "\"host\": self._remote_origin.host.decode(\"ascii\"),\n                        \"port\": self._proxy_origin.port,", "C10.R2")
M("c10-alpn-always-h2", "C10", A + "connection.py", "alpn_protocols = [\"http/1.1\", \"h2\"] if self._http2 else [\"http/1.1\"]", "alpn_protocols = [\"http/1.1\", \"h2\"]", "C10.R5")
M("c10-sni-ignored", "C10", A + "connection.py", "                        \"server_hostname\": sni_hostname\n                        or self._origin.host.decode(\"ascii\"),", "                        \"server_hostname\": self._origin.host.decode(\"ascii\"),", "C10.R4")
M("c10-socks-https-only", "C10", A + "socks_proxy.py", "if self._remote_origin.scheme in (b\"https\", b\"wss\"):", "if self._remote_origin.scheme == b\"https\":", "C10.R3")
# ---- C11 ------------------------------------------------------------------------------------------------
M("c11-merge-order", "C11", A + "http_proxy.py", "headers = merge_headers(self._proxy_headers, request.headers)", "headers = merge_headers(request.headers, self._proxy_headers)", "C11.R1")
M("c11-refusal-399", "C11", A + "http_proxy.py", "if connect_response.status < 200 or connect_response.status > 299:", "if connect_response.status < 200 or connect_response.status > 399:", "C11.R3")
M("c11-connect-caller-headers", "C11", A + "http_proxy.py", "[(b\"Host\", target), (b\"Accept\", b\"*/*\")], self._proxy_headers\n                )", "[(b\"Host\", target), (b\"Accept\", b\"*/*\")], self._proxy_headers + request.headers\n                )", "C11.R2")
M("c11-two-auth-methods", "C11", A + "socks_proxy.py", "SOCKS5AuthMethodsRequest([auth_method])", "SOCKS5AuthMethodsRequest([auth_method, socksio.socks5.SOCKS5AuthMethod.NO_AUTH_REQUIRED])", "C11.R5")
# ---- C12 ------------------------------------------------------------------------------------------------
M("c12-double-release", "C12", A + "http2.py", "                    await self._max_streams_semaphore.release()\n                    self._max_streams += 1",
  "                    await self._max_streams_semaphore.release()\n                    await self._max_streams_semaphore.release()\n                    self._max_streams += 1", "C12.R3")
M("c12-two-initial-permits", "C12", A + "http2.py", "self._max_streams = 1\n", "self._max_streams = 2\n", "C12.R2")
M("c12-register-after-send", "C12", A + "http2.py", "            stream_id = self._h2_state.get_next_available_stream_id()\n            self._events[stream_id] = []\n", "            stream_id = self._h2_state.get_next_available_stream_id()\n", "C12.R4")
# ---- C13 ------------------------------------------------------------------------------------------------
M("c13-unbounded-chunk", "C13", A + "http2.py", "            chunk_size = min(len(data), max_flow)", "            chunk_size = len(data)", "C13.R1")
M("c13-ack-len-data", "C13", A + "http2.py", "                amount = event.flow_controlled_length", "                amount = len(event.data)", "C13.R5")
M("c13-no-ack", "C13", A + "http2.py", "                self._h2_state.acknowledge_received_data(amount, stream_id)\n", "", "C13.R5")
M("c13-negative-window-ends-wait", "C13", A + "http2.py", "        while flow <= 0:", "        while flow == 0:", "C13.R3")   # reverts fix 664668d (KF28)
M("c13-stale-window", "C13", A + "http2.py", "            await self._receive_events(request)\n            local_flow = self._h2_state.local_flow_control_window(stream_id)\n", "            await self._receive_events(request)\n", "C13.R3")
# ---- C14 ------------------------------------------------------------------------------------------------
M("c14-retry-more", "C14", A + "connection_pool.py", "except ConnectionNotAvailable:", "except (ConnectionNotAvailable, ConnectionError):", "C14.R1")
M("c14-goaway-no-guard", "C14", A + "http2.py", "if stream_id and last_stream_id and stream_id > last_stream_id:", "if stream_id and last_stream_id:", "C14.R2")
M("c14-cna-on-write-error", "C14", A + "http11.py", "            except WriteError:\n                # If we get a write error while we're writing the request,", "            except WriteError:\n                raise ConnectionNotAvailable()\n                # If we get a write error while we're writing the request,", "C14.R2")
# ---- C15 ------------------------------------------------------------------------------------------------
M("c15-unmapped-next-event", "C15", A + "http11.py", "            with map_exceptions({h11.RemoteProtocolError: RemoteProtocolError}):\n                event = self._h11_state.next_event()", "            event = self._h11_state.next_event()", "C15.R1")
M("c15-backend-map-order", "C15", "httpcore/_backends/sync.py",
  "exc_map: ExceptionMapping = {socket.timeout: ReadTimeout, OSError: ReadError}\n        with map_exceptions(exc_map):\n            self._sock.settimeout(timeout)\n            return self._sock.recv(max_bytes)",
  "exc_map: ExceptionMapping = {OSError: ReadError, socket.timeout: ReadTimeout}\n        with map_exceptions(exc_map):\n            self._sock.settimeout(timeout)\n            return self._sock.recv(max_bytes)", "C15.R5")
M("c15-strict-decode", "C15", A + "http_proxy.py", "reason_str = reason_bytes.decode(\"ascii\", errors=\"ignore\")", "reason_str = reason_bytes.decode(\"ascii\")", "C15.R1")
M("c15-new-assert", "C15", A + "http11.py", "        http_version = b\"HTTP/\" + event.http_version", "        assert event.status_code >= 200\n        http_version = b\"HTTP/\" + event.http_version", "C15.R1")
M("c15-unmapped-send", "C15", A + "http11.py", "        with map_exceptions({h11.LocalProtocolError: LocalProtocolError}):\n            bytes_to_send = self._h11_state.send(event)", "        if True:\n            bytes_to_send = self._h11_state.send(event)", "C15.R1")
# ---- C16 ------------------------------------------------------------------------------------------------
M("c16-read-timeout-for-write", "C16", A + "http11.py", "        timeout = timeouts.get(\"write\", None)\n\n        with map_exceptions", "        timeout = timeouts.get(\"read\", None)\n\n        with map_exceptions", "C16.R1")
M("c16-no-timeout-h2-read", "C16", A + "http2.py", "data = await self._network_stream.read(self.READ_NUM_BYTES, timeout)", "data = await self._network_stream.read(self.READ_NUM_BYTES)", "C16.R1")
M("c16-default-5", "C16", A + "connection.py", "        timeout = timeouts.get(\"connect\", None)\n\n        retries_left", "        timeout = timeouts.get(\"connect\", 5.0)\n\n        retries_left", "C16.R1")
M("c16-backend-ignores", "C16", "httpcore/_backends/anyio.py", "            with anyio.fail_after(timeout):\n                try:\n                    return await self._stream.receive(max_bytes=max_bytes)", "            with anyio.fail_after(None):\n                try:\n                    return await self._stream.receive(max_bytes=max_bytes)", "C16.R3")
M("c16-pool-uses-connect", "C16", A + "connection_pool.py", "timeout = timeouts.get(\"pool\", None)", "timeout = timeouts.get(\"connect\", None)", "C16.R2")
# ---- C17 ------------------------------------------------------------------------------------------------
M("c17-off-by-one", "C17", A + "http11.py", "self._leading_data = self._leading_data[max_bytes:]", "self._leading_data = self._leading_data[max_bytes + 1 :]", "C17.R1")
M("c17-connect-201", "C17", A + "http11.py", "(request.method == b\"CONNECT\") and (200 <= status < 300)", "(request.method == b\"CONNECT\") and (200 < status < 300)", "C17.R2")
M("c17-drop-trailing", "C17", A + "http11.py", "network_stream = AsyncHTTP11UpgradeStream(network_stream, trailing_data)", "network_stream = AsyncHTTP11UpgradeStream(network_stream, b\"\")", "C17.R2")
# ---- C18 ------------------------------------------------------------------------------------------------
M("c18-sync-only-edit", "C18", "httpcore/_sync/http11.py", "        return self._state == HTTPConnectionState.IDLE\n\n    def has_expired", "        return self._state != HTTPConnectionState.CLOSED\n\n    def has_expired", "C18.R1")
M("c18-primitive-signature", "C18", "httpcore/_synchronization.py", "    def wait(self, timeout: float | None = None) -> None:\n        if timeout == float(\"inf\"):", "    def wait(self, seconds: float | None = None) -> None:\n        timeout = seconds\n        if timeout == float(\"inf\"):", "C18.R2")
# ---- C19 ------------------------------------------------------------------------------------------------
M("c19-eq-no-port", "C19", "httpcore/_models.py", "            and self.port == other.port\n        )\n\n    def __str__", "        )\n\n    def __str__", "C19.R2")
M("c19-wss-80", "C19", "httpcore/_models.py", "b\"wss\": 443,\n            b\"socks5\": 1080,", "b\"wss\": 80,\n            b\"socks5\": 1080,", "C19.R1")
M("c19-port-80-only", "C19", "httpcore/_models.py", "        if url.port is None or url.port == default_port:", "        if url.port is None or url.port == 80:", "C19.R6")
M("c19-unenforced-target", "C19", "httpcore/_models.py", "            self.target = enforce_bytes(target, name=\"target\")", "            self.target = target if isinstance(target, bytes) else target.encode()", "C19.R3")
M("c19-urlparse", "C19", "httpcore/_models.py", "urllib.parse.urlsplit(", "urllib.parse.urlparse(", "C19.R4")
M("c19-merge-dict", "C19", A + "http_proxy.py", "    return default_headers + override_headers", "    return list(dict(default_headers + override_headers).items())", "C19.R7")
# ---- C20 ------------------------------------------------------------------------------------------------
M("c20-lt-zero", "C20", A + "connection.py", "if retries_left <= 0:", "if retries_left < 0:", "C20.R3")
M("c20-oserror", "C20", A + "connection.py", "except (ConnectError, ConnectTimeout):", "except (ConnectError, ConnectTimeout, OSError):", "C20.R1")
M("c20-factor-1", "C20", A + "connection.py", "RETRIES_BACKOFF_FACTOR = 0.5", "RETRIES_BACKOFF_FACTOR = 1.0", "C20.R4")
M("c20-no-decrement", "C20", A + "connection.py", "                retries_left -= 1\n", "", "C20.R3")
M("c20-retries-plus-one", "C20", A + "connection.py", "        retries_left = self._retries\n", "        retries_left = self._retries + 1\n", "C20.R3")
# ---- transport layer (backend.py rules) and the rules added after seeded round 3 --------------------------
B_ = "httpcore/_backends/"
S_ = "httpcore/_synchronization.py"
M("tl-sync-send-once", "C03,C13", B_ + "sync.py", "            while buffer:\n                self._sock.settimeout(timeout)\n                n = self._sock.send(buffer)\n                buffer = buffer[n:]",
  "            self._sock.settimeout(timeout)\n            self._sock.send(buffer)", None)
M("tl-sync-send-advance-by-one", "C03,C13", B_ + "sync.py", "                n = self._sock.send(buffer)\n                buffer = buffer[n:]", "                n = self._sock.send(buffer)\n                buffer = buffer[n + 1:]", None)
M("tl-tlsintls-write-once", "C03", B_ + "sync.py", "            while buffer:\n                nsent = self._perform_io(functools.partial(self.ssl_obj.write, buffer))\n                buffer = buffer[nsent:]",
  "            self._perform_io(functools.partial(self.ssl_obj.write, buffer))", "C03.R9")
M("tl-anyio-write-truncated", "C03", B_ + "anyio.py", "                await self._stream.send(item=buffer)", "                await self._stream.send(item=buffer[:65536])", "C03.R9")
M("tl-trio-write-skips-small", "C03", B_ + "trio.py", "        if not buffer:\n            return\n\n        timeout_or_inf", "        if len(buffer) < 2:\n            return\n\n        timeout_or_inf", "C03.R9")
M("tl-anyio-read-stripped", "C02", B_ + "anyio.py", "                    return await self._stream.receive(max_bytes=max_bytes)", "                    return (await self._stream.receive(max_bytes=max_bytes)).rstrip(b\"\\x00\")", "C02.R7")
M("tl-sync-read-twice", "C02", B_ + "sync.py", "            return self._sock.recv(max_bytes)", "            self._sock.recv(1)\n            return self._sock.recv(max_bytes)", "C02.R7")
M("tl-close-after-shutdown", "C06,C15", B_ + "sync.py", "    def close(self) -> None:\n        self._sock.close()\n\n    def start_tls(\n        self,\n        ssl_context: ssl.SSLContext,\n        server_hostname: str | None = None,\n        timeout: float | None = None,\n    ) -> NetworkStream:\n        exc_map",
  "    def close(self) -> None:\n        self._sock.shutdown(socket.SHUT_RDWR)\n        self._sock.close()\n\n    def start_tls(\n        self,\n        ssl_context: ssl.SSLContext,\n        server_hostname: str | None = None,\n        timeout: float | None = None,\n    ) -> NetworkStream:\n        exc_map", None)
M("tl-anyio-close-conditional", "C06", B_ + "anyio.py", "    async def aclose(self) -> None:\n        await self._stream.aclose()", "    async def aclose(self) -> None:\n        if self.get_extra_info(\"is_readable\"):\n            await self._stream.aclose()", "C06.R7")
M("tl-event-lazy", "C08,C07", S_, "class Event:\n    def __init__(self) -> None:\n        self._event = threading.Event()\n\n    def set(self) -> None:\n        self._event.set()",
  "class Event:\n    def __init__(self) -> None:\n        self._event = threading.Event()\n        self._is_set = False\n\n    def set(self) -> None:\n        if not self._is_set:\n            self._is_set = True\n            return\n        self._event.set()", None)
M("tl-async-event-recreated", "C08,C07", S_, "    async def wait(self, timeout: float | None = None) -> None:\n        if not self._backend:\n            self.setup()\n\n        if self._backend == \"trio\":\n            trio_exc_map",
  "    async def wait(self, timeout: float | None = None) -> None:\n        self.setup()\n\n        if self._backend == \"trio\":\n            trio_exc_map", None)
M("tl-semaphore-release-guarded", "C08,C07", S_, "    def release(self) -> None:\n        self._semaphore.release()", "    def release(self) -> None:\n        if self._semaphore.acquire(blocking=False):\n            self._semaphore.release()", None)
M("tl-lock-is-rebound", "C08", S_, "    def __exit__(\n        self,\n        exc_type: type[BaseException] | None = None,\n        exc_value: BaseException | None = None,\n        traceback: types.TracebackType | None = None,\n    ) -> None:\n        self._lock.release()\n\n\nclass ThreadLock",
  "    def __exit__(\n        self,\n        exc_type: type[BaseException] | None = None,\n        exc_value: BaseException | None = None,\n        traceback: types.TracebackType | None = None,\n    ) -> None:\n        self._lock.release()\n        self._lock = threading.Lock()\n\n\nclass ThreadLock", "C08.R9")
M("tl-shield-not-shielding", "C05", S_, "            self._anyio_shield = anyio.CancelScope(shield=True)", "            self._anyio_shield = anyio.CancelScope()", "C05.R7")
M("tl-shield-exit-skipped", "C05", S_, "            self._trio_shield.__exit__(exc_type, exc_value, traceback)", "            pass", "C05.R7")
M("tl-trio-is-readable-tls", "C18,C09", B_ + "trio.py", "            socket = self.get_extra_info(\"socket\")\n            return socket.is_readable()", "            if isinstance(self._stream, trio.SSLStream):\n                return False\n            socket = self.get_extra_info(\"socket\")\n            return socket.is_readable()", None)
M("tl-anyio-valueerror-connecterror", "C20", B_ + "anyio.py", "            OSError: ConnectError,\n            anyio.BrokenResourceError: ConnectError,\n        }\n        with map_exceptions(exc_map):\n            with anyio.fail_after(timeout):\n                stream: anyio.abc.ByteStream = await anyio.connect_tcp(",
  "            OSError: ConnectError,\n            ValueError: ConnectError,\n            anyio.BrokenResourceError: ConnectError,\n        }\n        with map_exceptions(exc_map):\n            with anyio.fail_after(timeout):\n                stream: anyio.abc.ByteStream = await anyio.connect_tcp(", "C20.R6")
M("c16-forward-drops-extensions", "C16", A + "http_proxy.py", "            content=request.stream,\n            extensions=request.extensions,\n", "            content=request.stream,\n", "C16.R5")
M("c12-write-sticky-on-baseexception", "C12", A + "http2.py", "            except Exception as exc:  # pragma: nocover\n                # If we get a network error we should:\n                #\n                # 1. Save the exception and just raise it immediately on any future write.",
  "            except BaseException as exc:  # pragma: nocover\n                # If we get a network error we should:\n                #\n                # 1. Save the exception and just raise it immediately on any future write.", "C12.R6")
M("c09-h11-idle-without-their-done", "C09", A + "http11.py", "                self._h11_state.our_state is h11.DONE\n                and self._h11_state.their_state is h11.DONE", "                self._h11_state.our_state is h11.DONE", "C09.R4")
M("c19-origin-port-normalised-in-place", "C19", "httpcore/_models.py", "    def __eq__(self, other: typing.Any) -> bool:\n        return (\n            isinstance(other, Origin)", "    def __eq__(self, other: typing.Any) -> bool:\n        if isinstance(other, Origin) and other.port is None:\n            other.port = self.port\n        return (\n            isinstance(other, Origin)", "C19.R8")
M("c11-refusal-reads-body", "C11", A + "http_proxy.py", "                    msg = \"%d %s\" % (connect_response.status, reason_str)\n", "                    msg = \"%d %s\" % (connect_response.status, reason_str)\n                    await connect_response.aread()\n", "C11.R3")
M("c04-is-closed-trusts-flag", "C04,C06", A + "connection.py", "        if self._connection is None:\n            return self._connect_failed\n        return self._connection.is_closed()", "        if self._connect_failed:\n            return True\n        return self._connection is not None and self._connection.is_closed()", None)
# ---- configuration plumbing (plumb.py) -------------------------------------------------------------------
M("plumb-socks-h2-no-keepalive", "C09", A + "socks_proxy.py", "                            origin=self._remote_origin,\n                            stream=stream,\n                            keepalive_expiry=self._keepalive_expiry,\n                        )\n                    else:",
  "                            origin=self._remote_origin,\n                            stream=stream,\n                        )\n                    else:", "C09.R7")
M("plumb-pool-socks-http2-from-http1", "C10", A + "connection_pool.py", "                    http1=self._http1,\n                    http2=self._http2,\n                    network_backend=self._network_backend,\n                )\n            elif",
  "                    http1=self._http1,\n                    http2=self._http1,\n                    network_backend=self._network_backend,\n                )\n            elif", "C10.R8")
M("plumb-pool-drops-retries", "C20", A + "connection_pool.py", "            retries=self._retries,\n", "", None)
M("plumb-pool-drops-uds", "C10", A + "connection_pool.py", "            uds=self._uds,\n", "", "C10.R8")
M("plumb-connection-keepalive-default", "C09", A + "connection.py", "        self._keepalive_expiry = keepalive_expiry\n", "        self._keepalive_expiry = keepalive_expiry or None\n", "C09.R7")
M("plumb-tunnel-ssl-context-swapped", "C10", A + "http_proxy.py", "            remote_origin=origin,\n            ssl_context=self._ssl_context,\n            proxy_ssl_context=self._proxy_ssl_context,",
  "            remote_origin=origin,\n            ssl_context=self._proxy_ssl_context,\n            proxy_ssl_context=self._proxy_ssl_context,", "C10.R8")
# ---- support code (support.py), derived identity, backend TLS failure path ---------------------------------
M("sup-request-no-finally", "C05", A + "interfaces.py", "        response = await self.handle_async_request(request)\n        try:\n            await response.aread()\n        finally:\n            await response.aclose()\n        return response",
  "        response = await self.handle_async_request(request)\n        await response.aread()\n        await response.aclose()\n        return response", "C05.R8")
M("sup-stream-close-on-success-only", "C05", A + "interfaces.py", "        try:\n            yield response\n        finally:\n            await response.aclose()", "        yield response\n        await response.aclose()", "C05.R8")
M("sup-response-aclose-skips-iterating", "C05", "httpcore/_models.py", "        if hasattr(self.stream, \"aclose\"):\n            await self.stream.aclose()", "        if hasattr(self.stream, \"aclose\") and not hasattr(self, \"_content\"):\n            await self.stream.aclose()", "C05.R8")
M("sup-pool-exit-skips-close-on-error", "C06", A + "connection_pool.py", "        traceback: types.TracebackType | None = None,\n    ) -> None:\n        await self.aclose()", "        traceback: types.TracebackType | None = None,\n    ) -> None:\n        if exc_type is None:\n            await self.aclose()", "C06.R8")
M("sup-api-request-no-pool-scope", "C06", "httpcore/_api.py", "    with ConnectionPool() as pool:\n        return pool.request(", "    pool = ConnectionPool()\n    if True:\n        return pool.request(", "C06.R8")
M("id-tunnel-connect-url-default-port", "C10", A + "http_proxy.py", "                    host=self._proxy_origin.host,\n                    port=self._proxy_origin.port,\n                    target=target,", "                    host=self._proxy_origin.host,\n                    target=target,", "C10.R9")
M("tl-trio-timeout-scope-outside-try", "C06", "httpcore/_backends/trio.py", "            try:\n                with trio.fail_after(timeout_or_inf):\n                    await ssl_stream.do_handshake()\n            except Exception as exc:  # pragma: nocover\n                await self.aclose()\n                raise exc",
  "            with trio.fail_after(timeout_or_inf):\n                try:\n                    await ssl_stream.do_handshake()\n                except Exception as exc:  # pragma: nocover\n                    await self.aclose()\n                    raise exc", "C06.R5")
M("tl-anyio-reset-is-eof", "C02", "httpcore/_backends/anyio.py", "                except anyio.EndOfStream:  # pragma: nocover\n                    return b\"\"", "                except (anyio.EndOfStream, anyio.ClosedResourceError):  # pragma: nocover\n                    return b\"\"", "C02.R7")
M("sup-map-exceptions-swallows-unmatched", "C15", "httpcore/_exceptions.py", "                raise to_exc(exc) from exc\n        raise  # pragma: nocover", "                raise to_exc(exc) from exc", "C15.R7")
M("sup-map-exceptions-catches-base", "C15", "httpcore/_exceptions.py", "    except Exception as exc:  # noqa: PIE786\n        for from_exc", "    except BaseException as exc:  # noqa: PIE786\n        for from_exc", "C15.R7")
M("sup-trace-exit-suppresses", "C15", "httpcore/_trace.py", "                info = {\"exception\": exc_value}\n                self.trace(f\"{self.name}.failed\", info)\n", "                info = {\"exception\": exc_value}\n                self.trace(f\"{self.name}.failed\", info)\n                return isinstance(exc_value, GeneratorExit)\n", "C15.R7")
M("c01-h2-closed-after-stream-close", "C01", A + "http2.py", "        self._state = HTTPConnectionState.CLOSED\n        await self._network_stream.aclose()\n\n    # Wrappers around network", "        await self._network_stream.aclose()\n        self._state = HTTPConnectionState.CLOSED\n\n    # Wrappers around network", "C01.R10")
M("sup-direct-connection-test-before-lock", "C08,C04", A + "connection.py", "            async with self._request_lock:\n                if self._connection is None:\n                    stream = await self._connect(request)\n",
  "            if self._connection is None:\n                async with self._request_lock:\n                    stream = await self._connect(request)\n", None)
M("tl-auto-swaps-host-port-kw", "C10", "httpcore/_backends/auto.py", "            host,\n            port,\n            timeout=timeout,", "            host,\n            port or 80,\n            timeout=timeout,", "C10.R10")
M("tl-auto-drops-local-address", "C10", "httpcore/_backends/auto.py", "            local_address=local_address,\n", "", "C10.R10")
M("c13-end-stream-on-filtered-headers", "C13,C03", A + "http2.py", "        end_stream = not has_body_headers(request)", "        end_stream = request.stream is None", None)
M("sup-tunnel-hop-inherits-h2", "C11,C10", A + "http_proxy.py", "            ssl_context=proxy_ssl_context,\n        )\n        self._proxy_origin = proxy_origin\n        self._remote_origin = remote_origin", "            ssl_context=proxy_ssl_context,\n            http2=http2,\n        )\n        self._proxy_origin = proxy_origin\n        self._remote_origin = remote_origin", None)
M("tl-sync-zero-timeout-blocks", "C16", "httpcore/_backends/sync.py", "            self._sock.settimeout(timeout)\n            return self._sock.recv(max_bytes)", "            self._sock.settimeout(timeout or None)\n            return self._sock.recv(max_bytes)", "C16.R3")
M("tl-trio-zero-timeout-unbounded", "C16", "httpcore/_backends/trio.py", "        timeout_or_inf = float(\"inf\") if timeout is None else timeout\n        exc_map: ExceptionMapping = {\n            trio.TooSlowError: ReadTimeout,", "        timeout_or_inf = timeout or float(\"inf\")\n        exc_map: ExceptionMapping = {\n            trio.TooSlowError: ReadTimeout,", "C16.R3")
M("sup-aread-closes", "C17", "httpcore/_models.py", "            self._content = b\"\".join([part async for part in self.aiter_stream()])\n", "            self._content = b\"\".join([part async for part in self.aiter_stream()])\n            await self.aclose()\n", "C17.R5")
M("sup-trio-sleep-not-awaited", "C20,C18", "httpcore/_backends/trio.py", "        await trio.sleep(seconds)", "        trio.sleep(seconds)", None)
M("sup-pool-close-not-awaited", "C18", A + "connection_pool.py", "                await connection.aclose()", "                connection.aclose()", None)
# ---- rules added in rounds 5 / 6 --------------------------------------------------------------------------
M("c04-pass-outside-lock", "C04", A + "connection_pool.py",
  "                with self._optional_thread_lock:\n                    # Assign incoming requests to available connections,\n                    # closing or creating new connections as required.\n                    closing = self._assign_requests_to_connections()\n",
  "                with self._optional_thread_lock:\n                    pass\n                closing = self._assign_requests_to_connections()\n", "C04.R9")
M("c12-drain-before-write-lock", "C12", A + "http2.py",
  "        async with self._write_lock:\n            data_to_send = self._h2_state.data_to_send()\n",
  "        data_to_send = self._h2_state.data_to_send()\n        async with self._write_lock:\n", "C12.R10")
M("c19-parse-unchecked-url", "C19", "httpcore/_models.py",
  "            parsed = urllib.parse.urlsplit(enforce_bytes(url, name=\"url\"))",
  "            parsed = urllib.parse.urlsplit(url if isinstance(url, bytes) else url.encode(\"utf-8\"))", "C19.R4")
M("c10-pop-sni-from-shared-extensions", "C10", A + "http_proxy.py",
  "        async with self._connect_lock:\n            if not self._connected:\n",
  "        request.extensions.pop(\"sni_hostname\", None)\n        async with self._connect_lock:\n            if not self._connected:\n", "C10.R11")
M("c08-unlocked-idle-gate", "C08", A + "http11.py",
  "        async with self._state_lock:\n            if self._state in (HTTPConnectionState.NEW, HTTPConnectionState.IDLE):\n",
  "        if self._state == HTTPConnectionState.IDLE and self._expire_at is not None and time.monotonic() > self._expire_at:\n            await self.aclose()\n            raise ConnectionNotAvailable()\n        async with self._state_lock:\n            if self._state in (HTTPConnectionState.NEW, HTTPConnectionState.IDLE):\n", "C08.R12")
M("c18-repr-under-pool-lock", "C18", A + "connection_pool.py",
  "        closing_connections = []\n\n        # First we handle cleaning up any connections that are closed,",
  "        closing_connections = []\n        logger = __import__(\"logging\").getLogger(\"httpcore.connection_pool\")\n        logger.debug(\"assignment pass on %r\", self)\n\n        # First we handle cleaning up any connections that are closed,", "C18.R9")
M("c12-zero-stream-limit-applied", "C12", A + "http2.py", "            if new_max_streams and new_max_streams != self._max_streams:", "            if new_max_streams != self._max_streams:", "C12.R11")
M("c07-socks-availability-on-proxy-scheme", "C07", A + "socks_proxy.py", "                and (self._remote_origin.scheme == b\"https\" or not self._http1)", "                and (self._proxy_origin.scheme == b\"https\" or not self._http1)", "C07.R11")
# ---- round 8 (h): load-bearing code removed ----------------------------------------------------------------
M("c12-read-recheck-always-true", "C12,C07,C02", A + "http2.py", "            if stream_id is None or not self._events.get(stream_id):", "            if stream_id is None or stream_id:", None)
_RECHECK_OLD = ("        async with self._read_lock:\n            if self._connection_terminated is not None:\n                last_stream_id = self._connection_terminated.last_stream_id\n"
                "                if stream_id and last_stream_id and stream_id > last_stream_id:\n                    self._request_count -= 1\n                    raise ConnectionNotAvailable()\n"
                "                raise RemoteProtocolError(self._connection_terminated)\n\n"
                "            # This conditional is a bit icky. We don't want to block reading if we've\n            # actually got an event to return for a given stream. We need to do that\n"
                "            # check *within* the atomic read lock. Though it also need to be optional,\n            # because when we call it from `_wait_for_outgoing_flow` we *do* want to\n"
                "            # block until we've available flow control, event when we have events\n            # pending for the stream ID we're attempting to send on.\n"
                "            if stream_id is None or not self._events.get(stream_id):\n")
_RECHECK_NEW = ("        nothing_pending = stream_id is None or not self._events.get(stream_id)\n        async with self._read_lock:\n            if self._connection_terminated is not None:\n"
                "                last_stream_id = self._connection_terminated.last_stream_id\n"
                "                if stream_id and last_stream_id and stream_id > last_stream_id:\n                    self._request_count -= 1\n                    raise ConnectionNotAvailable()\n"
                "                raise RemoteProtocolError(self._connection_terminated)\n\n            if nothing_pending:\n")
M("c07-read-recheck-hoisted", "C07,C02", A + "http2.py", _RECHECK_OLD, _RECHECK_NEW, None)
M("c12-double-close-double-release", "C12", A + "http2.py", "        if not self._closed:\n            self._closed = True\n            kwargs = {\"stream_id\": self._stream_id}",
  "        if True:\n            self._closed = True\n            kwargs = {\"stream_id\": self._stream_id}", "C12.R13")
M("c18-event-inf-unconverted", "C18", "httpcore/_synchronization.py", "        if timeout == float(\"inf\"):  # pragma: no cover\n            timeout = None\n", "", "C18.R10")
M("c03-target-written-into-url", "C03", "httpcore/_models.py",
  "            self.url = URL(\n                scheme=self.url.scheme,\n                host=self.url.host,\n                port=self.url.port,\n                target=self.extensions[\"target\"],\n            )",
  "            self.url.target = enforce_bytes(self.extensions[\"target\"], name=\"target\")", "C03.R12")
M("c09-expiry-none-skips-readability", "C09", A + "http11.py",
  "        now = time.monotonic()\n        keepalive_expired = self._expire_at is not None and now > self._expire_at\n",
  "        if self._expire_at is None:\n            return False\n        now = time.monotonic()\n        keepalive_expired = now > self._expire_at\n", "C09.R4")
# ---- round 9 (i): flawed fixes ------------------------------------------------------------------------------
M("c13-headers-flush-only-without-body", "C13", A + "http2.py",
  "        self._h2_state.increment_flow_control_window(2**24, stream_id=stream_id)\n        await self._write_outgoing_data(request)\n",
  "        self._h2_state.increment_flow_control_window(2**24, stream_id=stream_id)\n        if end_stream:\n            await self._write_outgoing_data(request)\n", "C13.R9")
M("c19-host-bracketed-twice", "C19", "httpcore/_models.py", "            header_value = url.host\n",
  "            header_value = b\"[%b]\" % url.host if b\":\" in url.host else url.host\n", "C19.R10")
M("c20-backoff-levelled-off", "C20", A + "connection.py", "        yield factor * 2**n", "        yield min(factor * 2**n, 5.0)", "C20.R4")
M("c17-wrap-only-plain-streams", "C17", A + "http11.py", "                network_stream = AsyncHTTP11UpgradeStream(network_stream, trailing_data)",
  "                if not isinstance(network_stream, AsyncHTTP11UpgradeStream):\n                    network_stream = AsyncHTTP11UpgradeStream(network_stream, trailing_data)", "C17.R2")
