"""E12: self-test harness.  Builds scratch copies of /repo's current tree (outside /repo and
/verif, removed immediately), applies one variant each, and runs ./check against the copy.

* must-fire mutants (selftest/mutants.py): one broken instance per rule; the report must name the rule;
* must-stay-silent neutral refactors (selftest/neutral.py): behaviour-preserving edits; the set of
  violation keys must equal the one of the unmodified tree.

The harness never changes a check's verdict on /repo: results go to the evidence file."""
from __future__ import annotations

import ast
import json
import os
import re
import shutil
import subprocess
import sys
import tempfile
import typing as T
from concurrent.futures import ThreadPoolExecutor

VERIF = os.path.dirname(os.path.dirname(os.path.abspath(__file__)))
PY = "/venv/bin/python"


def make_copy(repo: str) -> str:
    tmp = tempfile.mkdtemp(prefix="hcself.")
    for d in ("httpcore", "scripts", "docs"):
        shutil.copytree(os.path.join(repo, d), os.path.join(tmp, d), ignore=shutil.ignore_patterns("__pycache__"))
    return tmp


def unasync(tmp: str) -> None:
    """Regenerate httpcore/_sync from httpcore/_async with the repository's own SUBS table (pure text)."""
    src = open(os.path.join(tmp, "scripts", "unasync.py"), encoding="utf-8").read()
    tree = ast.parse(src)
    subs = None
    for n in tree.body:
        if isinstance(n, ast.Assign) and any(isinstance(t, ast.Name) and t.id == "SUBS" for t in n.targets):
            subs = ast.literal_eval(n.value)
    assert subs is not None
    comp = [(re.compile(r"(^|\b)" + a + r"($|\b)"), b) for a, b in subs]
    adir, sdir = os.path.join(tmp, "httpcore", "_async"), os.path.join(tmp, "httpcore", "_sync")
    for fn in os.listdir(adir):
        if fn.endswith(".py"):
            out = []
            for line in open(os.path.join(adir, fn), encoding="utf-8").read().splitlines(keepends=True):
                for rx, rp in comp:
                    line = rx.sub(rp, line)
                out.append(line)
            open(os.path.join(sdir, fn), "w", encoding="utf-8").write("".join(out))


def run_check(prop: str, repo: str) -> tuple[int, set[str], set[str], str]:
    out_dir = tempfile.mkdtemp(prefix="hcout.")
    try:
        env = dict(os.environ, HCVERIF_OUT=out_dir, VERIF_TIER="quick")
        r = subprocess.run([os.path.join(VERIF, "check"), prop, "--repo", repo, "--tier", "quick"], capture_output=True, text=True, env=env)
        keys = set(re.findall(r"^      key: (.*)$", r.stdout, re.M))
        rules = set(re.findall(r"^   (C\d+\.R\d+) at", r.stdout, re.M))
        return r.returncode, keys, rules, r.stdout
    finally:
        shutil.rmtree(out_dir, ignore_errors=True)


def apply_text(tmp: str, rel: str, old: str, new: str) -> bool:
    p = os.path.join(tmp, rel)
    s = open(p, encoding="utf-8").read()
    if old not in s:
        return False
    open(p, "w", encoding="utf-8").write(s.replace(old, new, 1))
    if "/_async/" in rel:
        unasync(tmp)
    try:
        ast.parse(open(p, encoding="utf-8").read())
    except SyntaxError:
        return False
    return True


def run_mutants(prop: str, repo: str, base_keys: set[str], workers: int = 16) -> dict[str, T.Any]:
    from .mutants import MUTANTS

    todo = [m for m in MUTANTS if prop in m["props"]]

    def one(m: dict[str, T.Any]) -> dict[str, T.Any]:
        tmp = make_copy(repo)
        try:
            if not apply_text(tmp, m["file"], m["old"], m["new"]):
                return {"id": m["id"], "status": "not-applicable"}
            rc, keys, rules, out = run_check(prop, tmp)
            new = keys - base_keys
            want = m.get("rule")
            fired = rc == 1 and bool(new) and (want is None or any(k.startswith(want + "|") for k in new))
            return {"id": m["id"], "status": "fired" if fired else "MISSED", "exit": rc, "new_keys": sorted(new)[:3], "expected_rule": want}
        finally:
            shutil.rmtree(tmp, ignore_errors=True)

    with ThreadPoolExecutor(workers) as ex:
        res = list(ex.map(one, todo))
    return {"total": len(res), "fired": sum(r["status"] == "fired" for r in res), "missed": [r for r in res if r["status"] == "MISSED"],
            "not_applicable": [r["id"] for r in res if r["status"] == "not-applicable"], "results": res}


def run_seeded(prop: str, repo: str, base_keys: set[str], workers: int = 16) -> dict[str, T.Any]:
    """The independently produced breaking changes under /verif/seeded whose target property is `prop`."""
    import glob

    seeds = []
    for mp in sorted(glob.glob(os.path.join(VERIF, "seeded", "*", "meta.json"))):
        meta = json.load(open(mp))
        if meta.get("property") == prop and meta.get("valid_mutant"):
            seeds.append((meta["seed_id"], os.path.join(os.path.dirname(mp), "patch.diff")))

    def one(item: tuple[str, str]) -> dict[str, T.Any]:
        sid, patch = item
        tmp = make_copy(repo)
        try:
            r = subprocess.run(["patch", "-p1", "-s", "-f", "-i", patch], cwd=tmp, capture_output=True, text=True)
            if r.returncode != 0:
                return {"id": sid, "status": "not-applicable"}
            rc, keys, rules, out = run_check(prop, tmp)
            new = keys - base_keys
            return {"id": sid, "status": "fired" if rc == 1 and new else "MISSED", "exit": rc, "rules": sorted(rules)}
        finally:
            shutil.rmtree(tmp, ignore_errors=True)

    with ThreadPoolExecutor(workers) as ex:
        res = list(ex.map(one, seeds))
    return {"total": len(res), "fired": sum(r["status"] == "fired" for r in res), "missed": [r for r in res if r["status"] == "MISSED"],
            "not_applicable": [r["id"] for r in res if r["status"] == "not-applicable"], "results": res}


def run_neutral(prop: str, repo: str, base_rc: int, base_keys: set[str], workers: int = 16, only: list[str] | None = None) -> dict[str, T.Any]:
    from .neutral import VARIANTS as ALL_VARIANTS

    VARIANTS = [v for v in ALL_VARIANTS if only is None or v["id"] in only]

    def one(v: dict[str, T.Any]) -> dict[str, T.Any]:
        tmp = make_copy(repo)
        try:
            try:
                ok = v["apply"](tmp)
            except Exception as exc:  # noqa: BLE001
                return {"id": v["id"], "status": "not-applicable", "why": f"{type(exc).__name__}: {exc}"[:200]}
            if not ok:
                return {"id": v["id"], "status": "not-applicable"}
            rc, keys, rules, out = run_check(prop, tmp)
            same = keys == base_keys and rc == base_rc
            err = [l for l in out.splitlines() if "ANALYSIS-ERROR" in l][:2]
            return {"id": v["id"], "status": "silent" if same else "ALARM", "exit": rc, "extra_keys": sorted(keys - base_keys)[:40],
                    "lost_keys": sorted(base_keys - keys)[:10], "errors": err}
        finally:
            shutil.rmtree(tmp, ignore_errors=True)

    with ThreadPoolExecutor(workers) as ex:
        res = list(ex.map(one, VARIANTS))
    return {"total": len(res), "silent": sum(r["status"] == "silent" for r in res), "alarms": [r for r in res if r["status"] == "ALARM"],
            "not_applicable": [r["id"] for r in res if r["status"] == "not-applicable"]}


def selftest(prop: str, repo: str) -> dict[str, T.Any]:
    base_rc, base_keys, _, _ = run_check(prop, repo)
    return {"base_exit": base_rc, "base_keys": len(base_keys), "mutants": run_mutants(prop, repo, base_keys), "seeded": run_seeded(prop, repo, base_keys),
            "neutral": run_neutral(prop, repo, base_rc, base_keys)}


if __name__ == "__main__":
    sys.path.insert(0, VERIF)
    from selftest import harness as H  # noqa

    args = [a for a in sys.argv[1:] if not a.startswith("--")]
    only = None
    skip_mut = "--no-mutants" in sys.argv
    for a in sys.argv[1:]:
        if a.startswith("--neutral="):
            only = a.split("=", 1)[1].split(",")
    props = args[0].split(",") if args else [f"C{i:02d}" for i in range(1, 21)]
    repo = os.environ.get("HCVERIF_REPO", "/repo")
    for p in props:
        base_rc, base_keys, _, _ = H.run_check(p, repo)
        m = {"fired": 0, "total": 0, "not_applicable": [], "missed": []} if skip_mut else H.run_mutants(p, repo, base_keys)
        n = H.run_neutral(p, repo, base_rc, base_keys, only=only)
        sd = {"fired": 0, "total": 0, "not_applicable": [], "missed": []} if skip_mut else H.run_seeded(p, repo, base_keys)
        print(f"{p}: seeded fired {sd['fired']}/{sd['total'] - len(sd['not_applicable'])}" + "".join(f" MISSED-SEED {x['id']}" for x in sd["missed"]))
        print(f"{p}: mutants fired {m['fired']}/{m['total'] - len(m['not_applicable'])} (n/a {len(m['not_applicable'])}); neutral silent {n['silent']}/{n['total'] - len(n['not_applicable'])} (n/a {len(n['not_applicable'])})")
        for x in m["missed"]:
            print(f"    MISSED {x['id']} exit={x['exit']} expected {x['expected_rule']} new={x['new_keys']}")
        for x in n["alarms"]:
            print(f"    ALARM  {x['id']} exit={x['exit']} {x['errors']}")
            for k in x["extra_keys"]:
                print(f"        + {k}")
            for k in x["lost_keys"]:
                print(f"        - {k}")
