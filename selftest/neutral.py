"""Must-stay-silent catalogue: behaviour-preserving edits.  Each variant is applied to a scratch copy;
every check must report exactly the violation keys of the unmodified tree."""
from __future__ import annotations

import ast
import os
import typing as T

from .harness import apply_text, unasync

A = "httpcore/_async/"
CORE = ["connection.py", "connection_pool.py", "http11.py", "http2.py", "http_proxy.py", "interfaces.py", "socks_proxy.py"]
SHARED = ["httpcore/_models.py", "httpcore/_synchronization.py", "httpcore/_trace.py", "httpcore/_utils.py",
          "httpcore/_backends/sync.py", "httpcore/_backends/anyio.py", "httpcore/_backends/trio.py", "httpcore/_backends/mock.py", "httpcore/_backends/auto.py"]
VARIANTS: list[dict[str, T.Any]] = []


def V(id_: str, apply: T.Callable[[str], bool]) -> None:
    VARIANTS.append({"id": id_, "apply": apply})


def text(id_: str, file: str, old: str, new: str) -> None:
    V(id_, lambda tmp, file=file, old=old, new=new: apply_text(tmp, file, old, new))


def _rewrite(tmp: str, rel: str, transformer: ast.NodeTransformer) -> bool:
    p = os.path.join(tmp, rel)
    src = open(p, encoding="utf-8").read()
    tree = ast.parse(src)
    new = transformer.visit(tree)
    ast.fix_missing_locations(new)
    out = ast.unparse(new) + "\n"
    ast.parse(out)
    open(p, "w", encoding="utf-8").write(out)
    return True


def _all_async(tmp: str, make: T.Callable[[], ast.NodeTransformer], shared: bool = False) -> bool:
    for fn in CORE:
        _rewrite(tmp, A + fn, make())
    if shared:
        for rel in SHARED:
            _rewrite(tmp, rel, make())
    unasync(tmp)
    return True


class Identity(ast.NodeTransformer):
    pass


class AddDocstrings(ast.NodeTransformer):
    def _doc(self, node: T.Any) -> T.Any:
        self.generic_visit(node)
        if not (node.body and isinstance(node.body[0], ast.Expr) and isinstance(node.body[0].value, ast.Constant) and isinstance(node.body[0].value.value, str)):
            node.body.insert(0, ast.Expr(value=ast.Constant(value=f"Documentation for {node.name}.")))
        return node

    visit_FunctionDef = _doc
    visit_AsyncFunctionDef = _doc


class AddLogging(ast.NodeTransformer):
    """logger.debug(...) as first statement (after the docstring) of every method of modules that define `logger`."""

    def _log(self, node: T.Any) -> T.Any:
        self.generic_visit(node)
        if node.name.startswith("__") or any(isinstance(n, (ast.Yield, ast.YieldFrom)) for n in ast.walk(node)) and False:
            return node
        i = 1 if node.body and isinstance(node.body[0], ast.Expr) and isinstance(node.body[0].value, ast.Constant) and isinstance(node.body[0].value.value, str) else 0
        call = ast.Expr(value=ast.Call(func=ast.Attribute(value=ast.Name(id="logger", ctx=ast.Load()), attr="debug", ctx=ast.Load()),
                                       args=[ast.Constant(value=f"enter {node.name}")], keywords=[]))
        node.body.insert(i, call)
        return node

    visit_FunctionDef = _log
    visit_AsyncFunctionDef = _log


def _add_logging(tmp: str) -> bool:
    for fn in ("connection.py", "http11.py", "http2.py", "http_proxy.py", "socks_proxy.py"):
        _rewrite(tmp, A + fn, AddLogging())
    unasync(tmp)
    return True


class RenameLocals(ast.NodeTransformer):
    """Rename every local variable that is assigned in a function (not a parameter, not global) to <name>_v."""

    def _fn(self, node: T.Any) -> T.Any:
        params = {a.arg for a in node.args.posonlyargs + node.args.args + node.args.kwonlyargs}
        if node.args.vararg:
            params.add(node.args.vararg.arg)
        if node.args.kwarg:
            params.add(node.args.kwarg.arg)
        assigned = set()
        for n in ast.walk(node):
            if isinstance(n, ast.Name) and isinstance(n.ctx, ast.Store):
                assigned.add(n.id)
            elif isinstance(n, ast.ExceptHandler) and n.name:
                assigned.add(n.name)
        for n in ast.walk(node):
            if isinstance(n, (ast.Global, ast.Nonlocal)):
                assigned -= set(n.names)
        names = {x for x in assigned - params if not x.startswith("__")}
        # nested functions/classes are left alone (the repo has none in the core modules)
        for n in ast.walk(node):
            if isinstance(n, ast.Name) and n.id in names:
                n.id = n.id + "_v"
            elif isinstance(n, ast.ExceptHandler) and n.name in names:
                n.name = n.name + "_v"
        return node

    visit_FunctionDef = _fn
    visit_AsyncFunctionDef = _fn


V("reformat-unparse", lambda tmp: _all_async(tmp, Identity, shared=True))
V("add-docstrings", lambda tmp: _all_async(tmp, AddDocstrings, shared=True))
V("add-logging", _add_logging)
V("rename-locals", lambda tmp: _all_async(tmp, RenameLocals))

# ---- specific, hand-written behaviour-preserving edits (DESIGN.md appendix B) ---------------------------------------
text("idle-count-sum", A + "connection_pool.py", "len([c for c in self._connections if c.is_idle()])", "sum(1 for c in self._connections if c.is_idle())")
text("idle-count-sum-bools", A + "connection_pool.py", "len([c for c in self._connections if c.is_idle()])", "sum(c.is_idle() for c in self._connections)")
text("limit-flipped", A + "connection_pool.py", "elif len(self._connections) < self._max_connections:", "elif self._max_connections > len(self._connections):")
text("elif-split", A + "connection_pool.py",
     "            elif idle_connections:\n                # log: \"closing idle connection\"\n                connection = idle_connections[0]\n                self._connections.remove(connection)\n                closing_connections.append(connection)\n                # log: \"creating new connection\"\n                connection = self.create_connection(origin)\n                self._connections.append(connection)\n                pool_request.assign_to_connection(connection)",
     "            else:\n                if idle_connections:\n                    connection = idle_connections[0]\n                    self._connections.remove(connection)\n                    closing_connections.append(connection)\n                    connection = self.create_connection(origin)\n                    self._connections.append(connection)\n                    pool_request.assign_to_connection(connection)")
text("is-to-eq", A + "http11.py", "                self._h11_state.our_state is h11.DONE\n                and self._h11_state.their_state is h11.DONE", "                self._h11_state.our_state == h11.DONE\n                and h11.DONE == self._h11_state.their_state")
text("state-eq-to-is", A + "http11.py", "    def is_idle(self) -> bool:\n        return self._state == HTTPConnectionState.IDLE", "    def is_idle(self) -> bool:\n        return self._state is HTTPConnectionState.IDLE")
text("chunk-truthy-guard", A + "http11.py", "                async for chunk in self._connection._receive_response_body(**kwargs):\n                    yield chunk",
     "                async for chunk in self._connection._receive_response_body(**kwargs):\n                    if chunk:\n                        yield chunk")
text("pool-part-truthy-guard", A + "connection_pool.py", "            async for part in self._stream:\n                yield part", "            async for part in self._stream:\n                if part:\n                    yield part")
text("kwargs-inline-h2", A + "http2.py", "                    kwargs = {\"request\": request}\n                    async with Trace(\"send_connection_init\", logger, request, kwargs):\n                        await self._send_connection_init(**kwargs)",
     "                    kwargs = {\"request\": request}\n                    async with Trace(\"send_connection_init\", logger, request, kwargs):\n                        await self._send_connection_init(request=request)")
text("kwargs-inline-connect", A + "connection.py", "                        stream = await self._network_backend.connect_tcp(**kwargs)",
     "                        stream = await self._network_backend.connect_tcp(\n                            host=self._origin.host.decode(\"ascii\"),\n                            port=self._origin.port,\n                            local_address=self._local_address,\n                            timeout=timeout,\n                            socket_options=self._socket_options,\n                        )")
text("positional-timeout", A + "http11.py", "await self._network_stream.write(bytes_to_send, timeout=timeout)", "await self._network_stream.write(bytes_to_send, timeout)")
text("swap-independent-stmts", A + "http11.py", "                self._request_count += 1\n                self._state = HTTPConnectionState.ACTIVE\n                self._expire_at = None",
     "                self._expire_at = None\n                self._request_count += 1\n                self._state = HTTPConnectionState.ACTIVE")
text("early-return-wait", A + "connection_pool.py", "        if self.connection is None:\n            await self._connection_acquired.wait(timeout=timeout)\n        assert self.connection is not None\n        return self.connection",
     "        if self.connection is not None:\n            return self.connection\n        await self._connection_acquired.wait(timeout=timeout)\n        assert self.connection is not None\n        return self.connection")
text("demorgan-refusal", A + "http_proxy.py", "if connect_response.status < 200 or connect_response.status > 299:", "if not (200 <= connect_response.status <= 299):")
text("retry-guard-flipped", A + "connection.py", "if retries_left <= 0:", "if 0 >= retries_left:")
text("retry-guard-lt-one", A + "connection.py", "if retries_left <= 0:", "if retries_left < 1:")
text("backoff-shift", A + "connection.py", "        yield factor * 2**n", "        yield factor * (1 << n)")
text("timeout-helper", A + "http11.py", "        timeouts = request.extensions.get(\"timeout\", {})\n        timeout = timeouts.get(\"write\", None)\n\n        with map_exceptions",
     "        timeout = request.extensions.get(\"timeout\", {}).get(\"write\", None)\n\n        with map_exceptions")
text("extra-trace", A + "http11.py", "            network_stream = self._network_stream\n", "            async with Trace(\"got_headers\", logger, request, kwargs):\n                pass\n            network_stream = self._network_stream\n")
text("tls-set-literal", A + "connection.py", "if self._origin.scheme in (b\"https\", b\"wss\"):", "if self._origin.scheme in {b\"wss\", b\"https\"}:")
text("upgrade-cond-rewritten", A + "http11.py", "            if (status == 101) or (\n                (request.method == b\"CONNECT\") and (200 <= status < 300)\n            ):",
     "            is_connect = request.method == b\"CONNECT\"\n            if status == 101 or (is_connect and 200 <= status <= 299):")
text("has-expired-inline", A + "http2.py", "        now = time.monotonic()\n        return self._expire_at is not None and now > self._expire_at", "        return self._expire_at is not None and time.monotonic() > self._expire_at")
text("models-comment", "httpcore/_models.py", "def enforce_bytes(value: bytes | str, *, name: str) -> bytes:", "# text arguments\ndef enforce_bytes(value: bytes | str, *, name: str) -> bytes:")
text("close-loop-var-renamed", A + "connection_pool.py", "            for connection in closing:\n                await connection.aclose()", "            for conn in closing:\n                await conn.aclose()")
text("h2-available-demorgan", A + "http2.py",
     "            and not (\n                self._h2_state.state_machine.state\n                == h2.connection.ConnectionState.CLOSED\n            )",
     "            and self._h2_state.state_machine.state\n            != h2.connection.ConnectionState.CLOSED")
text("socks-timeout-read-key", A + "socks_proxy.py", "                        \"auth\": self._proxy_auth,\n                        \"timeout\": timeout,", "                        \"auth\": self._proxy_auth,\n                        \"timeout\": timeouts.get(\"read\", None),")

# ---- extract-method refactors (undone by hcverif/inline.py before analysis) --------------------------------------------
def _extract_cleanup(tmp: str) -> bool:
    ok = apply_text(tmp, A + "connection_pool.py",
                    "        closing_connections = []\n\n        # First we handle cleaning up any connections that are closed,\n        # have expired their keep-alive, or surplus idle connections.\n        for connection in list(self._connections):",
                    "        closing_connections: list[AsyncConnectionInterface] = []\n        self._drop_stale_connections(closing_connections)\n        self._assign_queued(closing_connections)\n        return closing_connections\n\n    def _drop_stale_connections(self, closing_connections: list[AsyncConnectionInterface]) -> None:\n        for connection in list(self._connections):")
    ok = ok and apply_text(tmp, A + "connection_pool.py",
                           "        # Assign queued requests to connections.\n        queued_requests = [request for request in self._requests if request.is_queued()]",
                           "    def _assign_queued(self, closing_connections: list[AsyncConnectionInterface]) -> None:\n        queued_requests = [request for request in self._requests if request.is_queued()]")
    ok = ok and apply_text(tmp, A + "connection_pool.py", "                pool_request.assign_to_connection(connection)\n\n        return closing_connections\n", "                pool_request.assign_to_connection(connection)\n")
    return ok


V("extract-cleanup-pass", _extract_cleanup)
text("extract-set-idle", A + "http11.py",
     "                self._state = HTTPConnectionState.IDLE\n                self._h11_state.start_next_cycle()\n                if self._keepalive_expiry is not None:\n                    now = time.monotonic()\n                    self._expire_at = now + self._keepalive_expiry\n            else:\n                await self.aclose()",
     "                self._become_idle()\n            else:\n                await self.aclose()\n\n    def _become_idle(self) -> None:\n        self._state = HTTPConnectionState.IDLE\n        self._h11_state.start_next_cycle()\n        if self._keepalive_expiry is not None:\n            now = time.monotonic()\n            self._expire_at = now + self._keepalive_expiry")
def _extract_timeout(tmp: str) -> bool:
    ok = apply_text(tmp, A + "http11.py",
                    "        timeouts = request.extensions.get(\"timeout\", {})\n        timeout = timeouts.get(\"write\", None)\n\n        with map_exceptions",
                    "        timeout = _get_timeout(request, \"write\")\n\n        with map_exceptions")
    ok = ok and apply_text(tmp, A + "http11.py", "class HTTPConnectionState(enum.IntEnum):",
                           "def _get_timeout(request: Request, key: str) -> float | None:\n    timeouts = request.extensions.get(\"timeout\", {})\n    return timeouts.get(key, None)\n\n\nclass HTTPConnectionState(enum.IntEnum):")
    return ok


V("extract-timeout-helper", _extract_timeout)


# ---- transport layer (backends, primitives) ---------------------------------------------------------------------------
def _rename_shared(tmp: str) -> bool:
    for rel in SHARED:
        _rewrite(tmp, rel, RenameLocals())
    return True


V("rename-locals-shared", _rename_shared)
B_ = "httpcore/_backends/"
text("tl-write-loop-len", B_ + "sync.py", "            while buffer:\n                self._sock.settimeout(timeout)", "            while len(buffer) > 0:\n                self._sock.settimeout(timeout)")
text("tl-write-count-renamed", B_ + "sync.py", "                n = self._sock.send(buffer)\n                buffer = buffer[n:]", "                sent = self._sock.send(buffer)\n                buffer = buffer[sent:]")
text("tl-anyio-send-positional", B_ + "anyio.py", "                await self._stream.send(item=buffer)", "                await self._stream.send(buffer)")
text("tl-read-through-local", B_ + "sync.py", "            return self._sock.recv(max_bytes)", "            data = self._sock.recv(max_bytes)\n            return data")
text("tl-trio-read-direct", B_ + "trio.py", "                data: bytes = await self._stream.receive_some(max_bytes=max_bytes)\n                return data", "                return await self._stream.receive_some(max_bytes=max_bytes)")
text("tl-is-readable-local", B_ + "sync.py", "        if info == \"is_readable\":\n            return is_socket_readable(self._sock)\n        return None\n\n\nclass SyncBackend", "        if info == \"is_readable\":\n            sock = self._sock\n            return is_socket_readable(sock)\n        return None\n\n\nclass SyncBackend")
text("tl-event-wait-positional", "httpcore/_synchronization.py", "        if not self._event.wait(timeout=timeout):", "        if not self._event.wait(timeout):")
text("tl-close-docstring", B_ + "sync.py", "    def close(self) -> None:\n        self._sock.close()\n\n    def start_tls(\n        self,\n        ssl_context: ssl.SSLContext,\n        server_hostname: str | None = None,\n        timeout: float | None = None,\n    ) -> NetworkStream:\n        exc_map",
     "    def close(self) -> None:\n        \"\"\"Release the socket.\"\"\"\n        self._sock.close()\n\n    def start_tls(\n        self,\n        ssl_context: ssl.SSLContext,\n        server_hostname: str | None = None,\n        timeout: float | None = None,\n    ) -> NetworkStream:\n        exc_map")
text("tl-connect-map-inline-annotation", B_ + "sync.py", "        exc_map: ExceptionMapping = {\n            socket.timeout: ConnectTimeout,\n            OSError: ConnectError,\n        }\n\n        with map_exceptions(exc_map):\n            sock = socket.create_connection(",
     "        exc_map = {socket.timeout: ConnectTimeout, OSError: ConnectError}\n\n        with map_exceptions(exc_map):\n            sock = socket.create_connection(")
text("derived-request-extensions-local", A + "http_proxy.py", "                connect_request = Request(\n                    method=b\"CONNECT\",\n                    url=connect_url,\n                    headers=connect_headers,\n                    extensions=request.extensions,\n                )",
     "                connect_extensions = request.extensions\n                connect_request = Request(\n                    method=b\"CONNECT\",\n                    url=connect_url,\n                    headers=connect_headers,\n                    extensions=connect_extensions,\n                )")
text("flow-wait-lt-one", A + "http2.py", "        while flow <= 0:", "        while flow < 1:")
text("refusal-msg-fstring", A + "http_proxy.py", "                    msg = \"%d %s\" % (connect_response.status, reason_str)", "                    msg = f\"{connect_response.status} {reason_str}\"")


# ---- independently produced behaviour-preserving refactors (/verif/neutral_seeded/<id>/patch.diff) ------------------------
def _patch_variant(path: str) -> T.Callable[[str], bool]:
    def apply(tmp: str) -> bool:
        import subprocess
        r = subprocess.run(["patch", "-p1", "-s", "-i", path], cwd=tmp, capture_output=True, text=True)
        return r.returncode == 0
    return apply


import glob as _glob

for _p in sorted(_glob.glob(os.path.join(os.path.dirname(os.path.dirname(os.path.abspath(__file__))), "neutral_seeded", "*", "patch.diff"))):
    V("agent-" + os.path.basename(os.path.dirname(_p)), _patch_variant(_p))
