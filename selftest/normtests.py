"""Soundness tests of the normalisation pipeline itself (python -m selftest.normtests).

 1. Differential: small PURE sample functions that exercise the canonical-form passes are canonicalised, both versions are
    compiled and run over an input grid - results (or exception types) must be equal.  This executes the SAMPLES below, never
    code of the repository under analysis.
 2. Refusals: shapes on which a pass must NOT fire (the rewrite would change behaviour) - the canonical text must still contain
    the construct."""
from __future__ import annotations

import ast
import itertools
import sys
import textwrap

sys.path.insert(0, "/verif")
from hcverif import canon, inline, records  # noqa: E402

SAMPLES = '''
class Box:
    def __init__(self, v): self.v = v
    def is_ok(self): return self.v is not None and self.v > 1
    def has_big(self): return self.v is not None and self.v > 5

def first_match(xs, d):
    for x in xs:
        if x.is_ok():
            break
    else:
        return d
    return x.v

def first_match_flag(xs, d):
    found = None
    for x in xs:
        if x.has_big():
            found = x
            break
    if found is None:
        return d
    return found.v

def guard_chain(a, b):
    if a is None:
        return 0
    if b is None:
        r = 1
    else:
        r = 2
    if a > 3:
        return r + 10
    r += 1
    return r

def partial_exit(xs, n):
    out = []
    for x in xs:
        if x > n:
            if x % 2:
                continue
            out.append(-x)
        out.append(x)
    return out

def flag_loop(xs):
    done = False
    i = 0
    total = 0
    while not done:
        if i >= len(xs):
            done = True
        else:
            total += xs[i]
            i += 1
    return total

def walrus(xs):
    i = 0
    acc = []
    while (v := (xs[i] if i < len(xs) else 0)) > 0:
        acc.append(v)
        i += 1
    return acc

def pred(a, b, c):
    if a or b:
        return False
    t = c > 2
    return not t

def named(a, b):
    big = a > 10
    both = big and b > 10
    if both:
        return 1
    return 0

def tuple_local(a, b):
    if a:
        t = (a, b)
    else:
        t = (b, a)
    x, y = t
    return x * 10 + y

def fuse(pairs):
    low = [(k.lower(), v) for k, v in pairs]
    return [(k, v) for k, v in low if k != "host"], next((v for k, v in low if k == "host"), None)

def extend(xs):
    out = [0, 1]
    out.extend(x * 2 for x in xs if x)
    return out

def ifelse_temp(a, b):
    if a is None:
        t = False
    else:
        t = a == b
    if t or b == 0:
        return 1
    return 2

def common_tail(a, xs):
    if a:
        return xs
    else:
        xs = xs + [1]
        return xs

def break_then_exit(m, e):
    for k, v in m:
        if e == k:
            break
    else:
        return None
    return v * 2

def identical(a, b):
    while True:
        if a > 5:
            r = a + b
            return r
        elif b > 5:
            r = a + b
            return r
        a += 1
        b += 2

class W:
    def __init__(self, inner, extra): self.inner = inner; self.extra = extra
    def val(self): return ("W", self.inner, self.extra)

class H:
    def __init__(self, buf): self.buf = buf; self.other = 0
    def bump(self): self.other += 1
    def read(self, n):
        data = self.buf
        if data:
            head = data[:n]
            self.buf = data[n:]
            return head
        return b""
    def two(self, k):
        if k == 1:
            s = self.buf
            return s[:1]
        elif k == 2:
            s = self.other
            return s + 1
        else:
            s = None
        return s

def cond_wrap(c, b, t):
    x = b
    if c:
        x = W(x, t)
    return x if not isinstance(x, W) else x.val()

def cond_wrap2(c, b, t):
    x = W(b, t) if c else b
    return x if not isinstance(x, W) else x.val()

def selected(c, a):
    if c:
        K = list
    else:
        K = tuple
    r = K(a)
    return r

def far_flag(xs):
    ok = False
    out = []
    try:
        while not ok:
            if not xs:
                ok = True
            else:
                out.append(xs.pop())
    finally:
        out.append("f")
    return out

def prime(xs):
    it = iter(xs)
    v = next(it, None)
    acc = []
    while v is not None:
        acc.append(v)
        v = next(it, None)
    return acc

def accum(xs):
    out = [0]
    for x in xs:
        y = x * 2
        if y > 2:
            out.append(y)
    return out

def loop_ret(xs):
    i = 0
    while True:
        if i >= len(xs):
            return i
        if xs[i] < 0:
            i += 2
            continue
        i += 1

def starred(a, b, c):
    t = (a, b, c)
    return max(*t)

def elif3(a):
    if a == 1:
        r = "x"
    elif a == 2:
        r = "x"
    elif a == 3:
        r = "y"
    else:
        r = "z"
    return r

def ctor_none(a):
    w = W(a, 1)
    if w is not None:
        return w.val()
    return None

def named_ifexp(a, b):
    neg = a < 0
    r = -b if neg else b
    return r

def cont_tail(xs):
    out = []
    for x in xs:
        if x is None:
            continue
        if x < 0:
            out.append(0)
            continue
        out.append(x)
    return out

def sink(xs, a):
    if xs:
        c = xs[0]
    elif a:
        c = a
    else:
        c = None
    if c is not None:
        return c + 1
    return -1
'''

GRID = {
    "first_match": lambda B: [([B(v) for v in vs], d) for vs in ([], [None], [0, 2, 7], [None, 1, 1], [9]) for d in (-1,)],
    "first_match_flag": lambda B: [([B(v) for v in vs], d) for vs in ([], [None], [0, 2, 7], [6, 9], [1]) for d in (-1,)],
    "guard_chain": lambda B: list(itertools.product((None, 1, 5), (None, 2))),
    "partial_exit": lambda B: [(xs, n) for xs in ([], [1, 2, 3, 4, 5, 6], [7, 8]) for n in (0, 3, 10)],
    "flag_loop": lambda B: [([],), ([1, 2, 3],)],
    "walrus": lambda B: [([],), ([1, 2, 0, 3],), ([3, 4],)],
    "pred": lambda B: list(itertools.product((0, 1), (0, 1), (1, 3))),
    "named": lambda B: list(itertools.product((5, 11), (5, 11))),
    "tuple_local": lambda B: list(itertools.product((0, 1, 2), (3, 4))),
    "fuse": lambda B: [([],), ([("Host", "h"), ("A", "1")],), ([("a", "1"), ("HOST", "x"), ("host", "y")],)],
    "extend": lambda B: [([],), ([0, 1, 2],)],
    "ifelse_temp": lambda B: list(itertools.product((None, 0, 1), (0, 1))),
    "common_tail": lambda B: [(a, xs) for a in (0, 1) for xs in ([], [5])],
    "break_then_exit": lambda B: [(m, e) for m in ([], [(1, 2), (3, 4)]) for e in (1, 3, 9)],
    "identical": lambda B: [(0, 0), (6, 0), (0, 6), (4, 1)],
    "sink": lambda B: [(xs, a) for xs in ([], [4]) for a in (0, 7)],
    "cond_wrap": lambda B: list(itertools.product((0, 1), ("b",), ("t",))),
    "cond_wrap2": lambda B: list(itertools.product((0, 1), ("b",), ("t",))),
    "selected": lambda B: [(0, [1, 2]), (1, (3,))],
    "far_flag": lambda B: [([],), ([1, 2],)],
    "prime": lambda B: [([],), ([1, 2, 3],)],
    "accum": lambda B: [([],), ([0, 1, 2, 3],)],
    "loop_ret": lambda B: [([],), ([1, -1, 2, 3],), ([-1],)],
    "starred": lambda B: [(1, 5, 3)],
    "elif3": lambda B: [(1,), (2,), (3,), (4,)],
    "ctor_none": lambda B: [(1,), (None,)],
    "named_ifexp": lambda B: [(-1, 4), (2, 4)],
    "cont_tail": lambda B: [([],), ([1, None, -2, 3],)],
}
METHOD_GRID = {"read": [(b"", 2), (b"abcdef", 2), (b"a", 5)], "two": [(b"xy", 1), (b"xy", 2), (b"xy", 3)]}

REFUSALS = [
    # (name, source, text that must survive canonicalisation)
    ("alias-across-await", "class K:\n    def w(self):\n        self.buf = b'x'\n    async def f(self):\n        v = self.buf\n        await self.g()\n        return v\n", "v = self.buf"),
    ("alias-after-store", "class K:\n    def f(self):\n        v = self.buf\n        self.buf = b''\n        return v\n", "v = self.buf"),
    ("search-impure-predicate", "def f(xs):\n    for x in xs:\n        if x.consume():\n            break\n    else:\n        return None\n    return x\n", "for x in xs"),
    ("none-fold-nullable-method", "class K:\n    def m(self) -> 'int | None':\n        return None\n    def f(self):\n        x = self.m()\n        if x is not None:\n            return 1\n        return 2\n", "is not None"),
    ("none-fold-field-reset", "class K:\n    def __init__(self, p: int):\n        self.p = p\n    def r(self):\n        self.p = None\n    def f(self):\n        if self.p is not None:\n            return 1\n        return 2\n", "is not None"),
    ("flag-read-after-loop", "def f(xs):\n    done = False\n    while not done:\n        done = True\n    return done\n", "while not done"),
    ("named-test-after-impure", "def f(a, g):\n    t = a > 1\n    x = g() or t\n    return x\n", "t = a > 1"),
    ("two-breaks", "def f(m, e, z):\n    y = 0\n    for k in m:\n        if k == e:\n            y = 1\n            break\n        if k == z:\n            y = 2\n            break\n    else:\n        return None\n    return (k, y)\n", "break"),
    ("fusion-temp-used-elsewhere", "def f(p):\n    low = [k.lower() for k in p]\n    return [k for k in low if k], len(low)\n", "low = "),
    ("dead-store-but-read", "def f(a):\n    x = None\n    if a:\n        x = 1\n    return x\n", "x = None"),
]


INLINE_SAMPLE = '''
import contextlib

class P:
    def __init__(self, xs):
        self.xs = xs
        self.log = []
    @contextlib.contextmanager
    def cm(self):
        self.log.append("enter")
        try:
            yield
        finally:
            self.log.append("exit")
    def _find(self, k):
        for x in self.xs:
            if x == k:
                return x * 2
        self.log.append("miss")
        return -1
    def _guarded(self, a):
        if a > 0:
            if a > 5:
                return "big"
            self.log.append("small")
        self.log.append("after")
        return "done"
    def _withret(self, a):
        with self.cm():
            if a:
                return 1
            self.log.append("in")
        return 2
    def _tryret(self, a):
        try:
            if a == 0:
                raise ValueError
            return 10 // a
        except ValueError:
            self.log.append("ve")
            return -1
    def _noret(self, a):
        if a:
            self.log.append("x")
            return
        self.log.append("y")
    def _nested(self, k):
        for i in self.xs:
            for j in self.xs:
                if i + j == k:
                    return (i, j)
            self.log.append(i)
        return None
    def _rebind(self, v):
        v = v + 1
        v = v * 2
        return v
    def c_find(self, k):
        r = self._find(k)
        return (r, list(self.log))
    def c_guarded(self, a):
        r = self._guarded(a)
        return (r, list(self.log))
    def c_withret(self, a):
        r = self._withret(a)
        self.log.append("post")
        return (r, list(self.log))
    def c_tryret(self, a):
        r = self._tryret(a)
        return (r, list(self.log))
    def c_noret(self, a):
        self._noret(a)
        self.log.append("z")
        return list(self.log)
    def c_nested(self, k):
        r = self._nested(k)
        return (r, list(self.log))
    def c_return_form(self, k):
        return self._find(k)
    def c_cond(self, k):
        if self._find(k) > 0 or k == 99:
            return "hit"
        return "no"
    def c_rebind(self, v):
        v = self._rebind(v)
        return v
'''
INLINE_GRID = {"c_find": [(1,), (3,), (9,)], "c_guarded": [(0,), (3,), (7,)], "c_withret": [(0,), (1,)], "c_tryret": [(0,), (3,)], "c_noret": [(0,), (1,)],
               "c_nested": [(2,), (5,), (40,)], "c_return_form": [(1,), (9,)], "c_cond": [(1,), (9,), (99,)], "c_rebind": [(1,), (5,)]}


def _run(fn, args):
    try:
        import copy

        return ("ok", fn(*copy.deepcopy(args)))
    except Exception as exc:  # noqa: BLE001
        return ("exc", type(exc).__name__)


def main() -> int:
    bad = []
    src = textwrap.dedent(SAMPLES)
    ns0: dict = {}
    exec(compile(src, "<samples>", "exec"), ns0)  # noqa: S102 - the samples above, not repository code
    tree = ast.parse(src)
    canon.canonicalise(tree, set(), set())
    ast.fix_missing_locations(tree)
    ns1: dict = {}
    exec(compile(tree, "<canonical samples>", "exec"), ns1)  # noqa: S102
    changed = 0
    orig_funcs = {n.name: ast.unparse(n) for n in ast.parse(src).body if isinstance(n, ast.FunctionDef)}
    for n in tree.body:
        if isinstance(n, ast.FunctionDef) and n.name in GRID:
            if ast.unparse(n) != orig_funcs[n.name]:
                changed += 1
    for name, grid in GRID.items():
        for k, args in enumerate(grid(ns0["Box"])):
            args1 = grid(ns1["Box"])[k]
            r0, r1 = _run(ns0[name], args), _run(ns1[name], args1)
            if r0 != r1:
                bad.append(f"differential: {name}{args!r}: original {r0}, canonical {r1}")
    for name, grid in METHOD_GRID.items():
        for buf, arg in grid:
            h0, h1 = ns0["H"](buf), ns1["H"](buf)
            r0, r1 = _run(getattr(h0, name), (arg,)), _run(getattr(h1, name), (arg,))
            if r0 != r1 or h0.buf != h1.buf:
                bad.append(f"differential: H({buf!r}).{name}({arg}): original {r0} buf={h0.buf!r}, canonical {r1} buf={h1.buf!r}")
    for name, source, must in REFUSALS:
        t = ast.parse(source)
        canon.canonicalise(t, set(), set())
        if must not in ast.unparse(t):
            bad.append(f"refusal: {name}: `{must}` was rewritten away:\n{ast.unparse(t)}")
    # inliner differential: helpers with returns in loops / with / try / nested ifs, expanded into their callers
    isrc = textwrap.dedent(INLINE_SAMPLE)
    i0: dict = {}
    exec(compile(isrc, "<inline sample>", "exec"), i0)  # noqa: S102
    it = ast.parse(isrc)
    known = {"P.__init__", "P.cm"} | {f"P.{k}" for k in INLINE_GRID}
    inotes = inline.inline_new_helpers(it, known)
    canon.canonicalise(it, set(), set())
    ast.fix_missing_locations(it)
    i1: dict = {}
    exec(compile(it, "<inlined sample>", "exec"), i1)  # noqa: S102
    left = [m.name for c in it.body if isinstance(c, ast.ClassDef) for m in c.body if isinstance(m, ast.FunctionDef) and m.name.startswith("_") and not m.name.startswith("__")]
    if left:
        bad.append(f"inliner: helpers not expanded: {left}")
    nin = 0
    for name, grid in INLINE_GRID.items():
        for args in grid:
            for xs in ([1, 2, 3], []):
                nin += 1
                r0 = _run(getattr(i0["P"](list(xs)), name), args)
                r1 = _run(getattr(i1["P"](list(xs)), name), args)
                if r0 != r1:
                    bad.append(f"inliner differential: P({xs}).{name}{args}: original {r0}, inlined {r1}")
    # helper objects and records: dissolved / scalarised program behaves like the original
    osrc = textwrap.dedent('''
        import typing

        class _Deadline:
            __slots__ = ("expiry", "at")
            def __init__(self, expiry):
                self.expiry = expiry
                self.at = None
            def clear(self):
                self.at = None
            def restart(self, now):
                if self.expiry is not None:
                    self.at = now + self.expiry
            def passed(self, now):
                return self.at is not None and now > self.at

        class Conn:
            def __init__(self, expiry):
                self._d = _Deadline(expiry)
                self.n = 0
            def use(self):
                d = self._d
                d.clear()
                self.n += 1
            def idle(self, now):
                self._d.restart(now)
            def expired(self, now):
                return self._d.passed(now)

        class Head(typing.NamedTuple):
            status: int
            reason: bytes = b"OK"
            def is_ok(self):
                return 200 <= self.status < 300

        def make(s) -> Head:
            if s:
                return Head(s)
            return Head(status=500, reason=b"ERR")

        def use(s):
            h = make(s)
            return (h.status, h.reason, h.is_ok())

        def use2(s):
            h = Head(s, b"x")
            return h.status + len(h.reason)

        def scenario(expiry, steps):
            c = Conn(expiry)
            out = []
            for op, t in steps:
                if op == "use":
                    c.use()
                elif op == "idle":
                    c.idle(t)
                out.append(c.expired(t + 1))
            return (out, c.n)
    ''')
    o0: dict = {}
    exec(compile(osrc, "<object sample>", "exec"), o0)  # noqa: S102
    ot = ast.parse(osrc)
    known_f = {"Conn.__init__", "Conn.use", "Conn.idle", "Conn.expired", "make", "use", "use2", "scenario"}
    onotes = inline.inline_new_helpers(ot, known_f)
    onotes += [n for ns in records.dissolve_objects({"m.py": ot}, {"m.py": {"Conn"}}).values() for n in ns]
    onotes += [n for ns in records.scalarise({"m.py": ot}, {"m.py": {"Conn"}}).values() for n in ns]
    canon.canonicalise(ot, set(), set())
    ast.fix_missing_locations(ot)
    o1: dict = {}
    exec(compile(ot, "<dissolved sample>", "exec"), o1)  # noqa: S102
    otxt = ast.unparse(ot)
    if "_Deadline(" in otxt.split("class Conn")[1]:
        bad.append("objects: the helper object of Conn was not dissolved")
    nobj = 0
    for expiry in (None, 5):
        for steps in ([], [("idle", 0)], [("idle", 0), ("use", 3), ("idle", 10), ("noop", 20)], [("use", 1), ("idle", 2), ("noop", 6), ("noop", 8)]):
            nobj += 1
            r0, r1 = _run(o0["scenario"], (expiry, steps)), _run(o1["scenario"], (expiry, steps))
            if r0 != r1:
                bad.append(f"objects differential: scenario({expiry}, {steps}): original {r0}, dissolved {r1}")
    for fn_ in ("use", "use2"):
        for s_ in (0, 200, 404):
            nobj += 1
            r0, r1 = _run(o0[fn_], (s_,)), _run(o1[fn_], (s_,))
            if r0 != r1 and not (r0[0] == "ok" and r1[0] == "ok" and tuple(r0[1]) == tuple(r1[1])):
                bad.append(f"records differential: {fn_}({s_}): original {r0}, scalarised {r1}")
    # inliner: a helper's returned local must not be merged with a caller variable that a handler reads (the C06-e shape)
    src2 = ("class K:\n    def _open(self):\n        stream = self.connect()\n        self.negotiate(stream)\n        return stream\n"
            "    def run(self):\n        stream = None\n        try:\n            stream = self._open()\n            self.use(stream)\n        except BaseException:\n"
            "            if stream is not None:\n                stream.close()\n            raise\n")
    t2 = ast.parse(src2)
    inline.inline_new_helpers(t2, {"K.run"})
    run = next(n for n in ast.walk(t2) if isinstance(n, ast.FunctionDef) and n.name == "run")
    first_bind = next(s for s in ast.walk(run) if isinstance(s, ast.Assign) and isinstance(s.value, ast.Call) and "connect" in ast.unparse(s.value))
    if ast.unparse(first_bind.targets[0]) == "stream":
        bad.append("inliner: the helper's local `stream` was merged with the caller's `stream` although the caller's handler reads it")
    # records: a stateful field default is the shared class attribute; an escaping record is left alone
    src3 = ("import dataclasses\n@dataclasses.dataclass\nclass R:\n    n: int\n    it: object = make()\n"
            "def f(k):\n    r = R(n=k)\n    return next(r.it) + r.n\n"
            "def g(k):\n    r = R(n=k)\n    return h(r)\n")
    t3 = ast.parse(src3)
    records.scalarise({"m.py": t3}, {"m.py": set()})
    txt3 = ast.unparse(t3)
    if "R.it" not in txt3:
        bad.append("records: a non-literal dataclass default must become the shared class attribute `R.it`")
    if "h(r)" not in txt3 or "r = R(n=k)" not in txt3:
        bad.append("records: an escaping record was scalarised")
    print(f"normalisation self-test: {len(GRID)} sample functions ({changed} rewritten by canon), {sum(len(g(ns0['Box'])) for g in GRID.values())} differential runs, "
          f"{len(REFUSALS)} refusals, {nin} inliner differential runs ({len(inotes)} helpers expanded), {nobj} object / record differential runs ({len(onotes)} steps), 3 inliner / record cases: {'OK' if not bad else 'FAILED'}")
    for b in bad:
        print("  " + b)
    return 1 if bad else 0


if __name__ == "__main__":
    raise SystemExit(main())
